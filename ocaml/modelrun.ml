(* modelrun: replays trace files written by the Go drivers through the
   extracted Coq model, compares projected observables and evaluates the
   extracted oracles on what the IMPLEMENTATION did.

   usage: modelrun <trace-file>      (one verdict line per trace line)
   output line:  <lineno> TAB <AGREE|DIFF:what> TAB <oracle failures|-> TAB <nontrivial 0/1> TAB <class>
   oracle failure = name:P (the model predicts exactly this failure on this
   input) or name:U (it does not).  *)

module M = Model

(* ---------- conversions between OCaml/Zarith numbers and extracted Z ------ *)
let rec pos_of_zt (n : Z.t) : M.positive =
  if Z.equal n Z.one then M.XH
  else if Z.is_even n then M.XO (pos_of_zt (Z.shift_right n 1))
  else M.XI (pos_of_zt (Z.shift_right n 1))

let z_of_zt (n : Z.t) : M.z =
  if Z.sign n = 0 then M.Z0
  else if Z.sign n > 0 then M.Zpos (pos_of_zt n)
  else M.Zneg (pos_of_zt (Z.neg n))

let rec zt_of_pos (p : M.positive) : Z.t =
  match p with
  | M.XH -> Z.one
  | M.XO q -> Z.shift_left (zt_of_pos q) 1
  | M.XI q -> Z.succ (Z.shift_left (zt_of_pos q) 1)

let zt_of_z (z : M.z) : Z.t =
  match z with M.Z0 -> Z.zero | M.Zpos p -> zt_of_pos p | M.Zneg p -> Z.neg (zt_of_pos p)

let rec nat_of_int n = if n <= 0 then M.O else M.S (nat_of_int (n - 1))
let rec int_of_nat = function M.O -> 0 | M.S k -> 1 + int_of_nat k
let z_of_string s = z_of_zt (Z.of_string s)
let z_of_int i = z_of_zt (Z.of_int i)
let string_of_z z = Z.to_string (zt_of_z z)
let int_of_z z = Z.to_int (zt_of_z z)

(* ---------- token stream ---------------------------------------------------- *)
type toks = { a : string array; mutable i : int }
let mk line = { a = Array.of_list (List.filter (fun s -> s <> "") (String.split_on_char ' ' line)); i = 0 }
exception Malformed of string
let next t = if t.i >= Array.length t.a then raise (Malformed "eol") else (let s = t.a.(t.i) in t.i <- t.i + 1; s)
let peek t = if t.i >= Array.length t.a then "" else t.a.(t.i)
let eol t = t.i >= Array.length t.a
let nz t = z_of_string (next t)
let ni t = int_of_string (next t)
let nb t = (ni t) <> 0
let expect t s = let x = next t in if x <> s then raise (Malformed ("expected " ^ s ^ " got " ^ x))
let rec times n f = if n <= 0 then [] else let x = f () in x :: times (n - 1) f

(* hex string token ("-" = empty) <-> list of byte values as extracted Z *)
let bytes_of_hex s =
  if s = "-" then [] else
  List.init (String.length s / 2) (fun k -> z_of_int (int_of_string ("0x" ^ String.sub s (2 * k) 2)))
let hex_of_bytes l =
  if l = [] then "-" else String.concat "" (List.map (fun z -> Printf.sprintf "%02x" (int_of_z z)) l)
let str_of_hex s =
  if s = "-" then "" else
  String.init (String.length s / 2) (fun k -> Char.chr (int_of_string ("0x" ^ String.sub s (2 * k) 2)))

(* ---------- verdict accumulation ------------------------------------------- *)
type verdict = {
  mutable diffs : string list;
  mutable oracles : string list;
  mutable nontrivial : bool;
  mutable cls : string;
  mutable model_fails : bool;   (* the MODEL's own behaviour on this input violates an oracle (a finding the model predicts) *)
}
let fresh () = { diffs = []; oracles = []; nontrivial = false; cls = "-"; model_fails = false }
let diff v s = if not (List.mem s v.diffs) then v.diffs <- s :: v.diffs
let oracle v name predicted =
  let s = name ^ (if predicted then ":P" else ":U") in
  if not (List.mem s v.oracles) then v.oracles <- s :: v.oracles

(* ============================ suite R : ranges (C09) ======================== *)
let suite_ranges t v =
  let size = nz t in
  let n = ni t in
  let parts = times n (fun () -> let b = nz t in let e = nz t in (b, e)) in
  let nq = ni t in
  let qs = times nq (fun () -> let b = nz t in let e = nz t in (b, e)) in
  expect t "=";
  let steps = times n (fun () ->
    let len = ni t in
    let rec_ = times len (fun () -> let b = nz t in let e = nz t in (b, e)) in
    let c = nb t in (rec_, c)) in
  let answers = times nq (fun () -> nb t) in
  let m = ref [] and iprev = ref [] and seen = ref [] in
  let all_d = ref true in
  List.iteri (fun k ((b, e), (irec, ic)) ->
    let ks = string_of_int k in
    let m' = M.add_part !m b e in
    if not (M.same_set_b m' irec) then diff v ("claimed@" ^ ks);
    let mc = M.complete m' size in
    if mc <> ic then diff v ("complete@" ^ ks);
    (* oracle: nothing claimed that was not on record or in this part *)
    if not (M.subset_b irec (!iprev @ [(b, e)])) then
      oracle v "claims_unreceived" (not (M.subset_b m' (!m @ [(b, e)])));
    (* oracle: retention; on D it must hold, outside D only the model's own loss is known *)
    let in_d = M.discipline_b (List.rev !seen) [(b, e)] in
    if not in_d then all_d := false;
    let well_formed = M.Z.ltb b e in
    if well_formed && not (M.subset_b (!m @ [(b, e)]) m') then v.model_fails <- true;
    if well_formed && not (M.subset_b (!iprev @ [(b, e)]) irec) then begin
      let model_drops = not (M.subset_b (!m @ [(b, e)]) m') && M.same_set_b m' irec in
      if not (M.subset_b (!m @ [(b, e)]) m') then v.model_fails <- true;
      if in_d && !all_d then oracle v "drops_acknowledged" false
      else oracle v "drops_acknowledged_overlap" model_drops
    end;
    (* oracle: complete only with full coverage *)
    if ic && not (M.subset_b [(M.Z0, size)] irec) then
      oracle v "complete_with_gap" (mc && not (M.subset_b [(M.Z0, size)] m'));
    m := m'; iprev := irec; seen := (b, e) :: !seen) (List.combine parts steps);
  List.iteri (fun k ((qb, qe), ia) ->
    let ma = M.part_exists !m qb qe in
    if ma && not (M.subset_b [(qb, qe)] !m) then v.model_fails <- true;
    if ma <> ia then diff v ("exists@" ^ string_of_int k);
    if ia && not (M.subset_b [(qb, qe)] !iprev) then
      oracle v "exists_unreceived" (ma && not (M.subset_b [(qb, qe)] !m) && M.same_set_b !m !iprev))
    (List.combine qs answers);
  v.cls <- (if !all_d then "D" else "F");
  (* non-trivial: at least two parts and two of them touch, overlap or coincide *)
  let touches (b1, e1) (b2, e2) = not (M.Z.ltb e1 b2 || M.Z.ltb e2 b1) in
  let rec anyp = function [] -> false | p :: r -> List.exists (touches p) r || anyp r in
  v.nontrivial <- n >= 2 && anyp parts


(* ============================ suite K : chunks and payloads (C11, C07) ======= *)
let suite_chunk t v =
  let chunk = nz t in
  let cap = nz t in
  let nf = ni t in
  let files = times nf (fun () ->
    let size = nz t in
    let nrec = ni t in
    let rec_ = if nrec < 0 then None else Some (times nrec (fun () -> let b = nz t in let e = nz t in (b, e))) in
    (size, rec_)) in
  expect t "=";
  let ilefts = times nf (fun () ->
    let nl = ni t in
    if nl < 0 then None else Some (times nl (fun () -> let b = nz t in let e = nz t in (b, e)))) in
  let nch = ni t in
  let ichunks = times nch (fun () -> let f = ni t in let o = nz t in let l = nz t in let s = nz t in (f, o, l, s)) in
  let npay = ni t in
  let ipays = times npay (fun () ->
    let np = ni t in times np (fun () -> let f = ni t in let b = nz t in let e = nz t in (f, b, e))) in
  let zeq a b = M.Z.eqb a b in
  let range_list_eq a b = List.length a = List.length b && List.for_all2 (fun (x1, y1) (x2, y2) -> zeq x1 x2 && zeq y1 y2) a b in
  let fuel = nch + 10 in
  let in_d = ref (M.Z.leb (z_of_int 10) cap) in
  (* model: per file the plan and the chunks *)
  let mplans = List.mapi (fun i (size, rec_) ->
    match rec_ with
    | None -> (None, M.chunks_plain (nat_of_int fuel) size chunk M.Z0, size)
    | Some r ->
        let sorted = M.sort_ranges r in
        let okrec = M.sorted_disjoint_b sorted
                    && (match sorted with [] -> true | (b, _) :: _ -> M.Z.leb M.Z0 b)
                    && List.for_all (fun (_, e) -> M.Z.leb e size) sorted in
        if not okrec then in_d := false;
        let left = M.missing r size in
        ignore i;
        (Some left, (if left = [] then Some [] else M.chunks_rec (nat_of_int fuel) left M.Z0 chunk), M.send_size left)) files in
  (* compare the resumption plan *)
  List.iteri (fun i ((ml, _, _), il) ->
    match ml, il with
    | None, None -> ()
    | Some a, Some b -> if not (range_list_eq a b) then diff v ("left@" ^ string_of_int i)
    | _ -> diff v ("left-kind@" ^ string_of_int i)) (List.combine mplans ilefts);
  (* model chunk sequence = files in index order *)
  let mchunks = List.concat (List.mapi (fun i (_, cs, send) ->
    match cs with
    | None -> diff v ("model-out-of-fuel@" ^ string_of_int i); []
    | Some l -> List.map (fun (o, len) -> (i, o, len, send)) l) mplans) in
  let chunk_eq (f1, o1, l1, s1) (f2, o2, l2, s2) = f1 = f2 && zeq o1 o2 && zeq l1 l2 && zeq s1 s2 in
  if not (List.length mchunks = List.length ichunks && List.for_all2 chunk_eq mchunks ichunks) then diff v "chunks";
  (* binner: flushes are taken from the observation (an idle flush is legal between chunks) *)
  let starts = List.filter_map (function [] -> None | (f, b, _) :: _ -> Some (f, b)) (match ipays with [] -> [] | _ :: r -> r) in
  let evs = List.map (fun (f, o, l, _) ->
    (List.exists (fun (f', b) -> f' = f && zeq b o) starts, ((z_of_int f, o), l))) ichunks in
  let mst = M.pack cap M.init_bstate evs in
  let mpays, mdropped = match mst with
    | None -> diff v "model-pack-out-of-fuel"; ([], false)
    | Some st -> (M.payloads st, M.dropped st <> []) in
  if mdropped then v.model_fails <- true;
  if List.exists (fun (_, _, l, _) -> M.Z.leb l M.Z0) mchunks then v.model_fails <- true;
  let part_eq ((f1, b1), e1) (f2, b2, e2) = int_of_z f1 = f2 && zeq b1 b2 && zeq e1 e2 in
  if not (List.length mpays = List.length ipays &&
          List.for_all2 (fun mp ip -> List.length mp = List.length ip && List.for_all2 part_eq mp ip) mpays ipays)
  then diff v "payloads";
  (* ---- oracles on the implementation's observations ---- *)
  List.iteri (fun i ((size, rec_), (ml, _, _)) ->
    let mine = List.filter_map (fun (f, o, l, _) -> if f = i then Some (o, l) else None) ichunks in
    (match rec_, ml with
     | None, _ ->
         if not (M.tiles_from_b M.Z0 size mine) then oracle v "chunks_not_tiling_file" false
     | Some _, Some left ->
         if !in_d || (M.sorted_disjoint_b left) then begin
           if not (M.tiles_ranges_b (nat_of_int (List.length mine + List.length left + 2)) left mine) then
             oracle v "chunks_not_tiling_missing" false
         end else begin
           (* overlapping record: "missing" has an inverted range; the chunks cannot tile *)
           let mmine = List.filter_map (fun (f, o, l, _) -> if f = i then Some (o, l) else None) mchunks in
           if List.exists (fun (_, l) -> M.Z.leb l M.Z0) mine then
             oracle v "negative_chunk_overlapping_record" (List.exists (fun (_, l) -> M.Z.leb l M.Z0) mmine)
         end
     | _ -> ());
    if M.Z.ltb M.Z0 chunk && not (M.all_le_b chunk mine) then oracle v "chunk_too_large" false;
    (* C08: the tracker takes the send size stamped on a chunk for the number of bytes that have to be
       acknowledged before the file is logged as sent: every chunk of a file carries the same one, the sum of
       its chunks' lengths *)
    let sends = List.filter_map (fun (f, _, _, sd) -> if f = i then Some sd else None) ichunks in
    let total = List.fold_left (fun a (_, l) -> M.Z.add a l) M.Z0 mine in
    if mine <> [] && List.for_all (fun (_, l) -> M.Z.ltb M.Z0 l) mine && List.exists (fun sd -> not (zeq sd total)) sends then
      oracle v "send_size_is_not_the_bytes_to_send" false;
    (* parts of this file, in transmission order, tile its chunks without crossing them *)
    let myparts = List.concat (List.map (fun p -> List.filter_map (fun (f, b, e) -> if f = i then Some (b, M.Z.sub e b) else None) p) ipays) in
    let chunk_ranges = List.map (fun (o, l) -> (o, M.Z.add o l)) mine in
    if List.for_all (fun (_, l) -> M.Z.ltb M.Z0 l) mine then
      if not (M.tiles_ranges_b (nat_of_int (List.length myparts + List.length mine + 2)) chunk_ranges myparts) then
        oracle v (if M.Z.ltb cap (z_of_int 10) then "chunk_dropped_zero_slack" else "parts_not_tiling_chunks")
          (M.Z.ltb cap (z_of_int 10) && mdropped && not (List.mem "payloads" v.diffs))
    ) (List.combine files mplans);
  let allowance = M.Z.add cap (M.fluff_of cap) in
  List.iter (fun p ->
    let bytes = List.fold_left (fun acc (_, b, e) -> M.Z.add acc (M.Z.sub e b)) M.Z0 p in
    if M.Z.ltb allowance bytes then oracle v "payload_over_allowance" false) ipays;
  v.cls <- (if !in_d then "D" else "F");
  v.nontrivial <- (nch > nf) || (List.length ipays > 1) || List.exists (fun p -> List.length p > 1) ipays


(* ============================ suite Q : queue (C10, C12) ===================== *)
let suite_queue t v =
  let nt = ni t in
  let tags = Array.of_list (times nt (fun () ->
    let p = nz t in let o = nz t in let c = nz t in let d = nz t in
    { M.tprio = p; torder = o; tchunk = c; tdelay = d })) in
  let nops = ni t in
  let ops = times nops (fun () ->
    match next t with
    | "O" -> `Pop (nz t)
    | "P" ->
        let k = ni t in
        `Push (times k (fun () ->
          let name = bytes_of_hex (next t) in
          let group = bytes_of_hex (next t) in
          let tg = ni t in
          let tm = nz t in
          let size = nz t in
          let kind = ni t in
          let prev, left = if kind = 1 then begin
              let pv = bytes_of_hex (next t) in
              let nl = ni t in
              (pv, times nl (fun () -> let b = nz t in let e = nz t in (b, e))) end else ([], []) in
          let f = { M.fname = name; ftime = tm; fsize = size; falloc = M.Z0; frec = (kind = 1);
                    fprev = prev; fleft = left; fused = M.Z0;
                    fsend = (if kind = 1 then M.send_size left else size) } in
          ((f, group), (if tg < 0 then None else Some tags.(tg)))))
    | s -> raise (Malformed ("op " ^ s))) in
  expect t "=";
  let q = ref [] in
  let repushed = ref false in
  let stop = ref false in
  let npop = ref 0 in
  (* for the rotation oracle: (served group name option, [(group name, prio)] ready) per pop *)
  let hist = ref [] in
  let find_file_group name st =
    List.find_opt (fun g -> M.has_name name g.M.gfiles) st in
  List.iter (fun op ->
    if not !stop then
    match op with
    | `Push batch ->
        List.iter (fun (((f, gn), _) as it) ->
          (match M.find_group gn !q with
           | Some g -> if M.has_name f.M.fname g.M.gfiles then repushed := true
           | None -> ());
          q := M.push !q [it]) batch
    | `Pop now ->
        let k = string_of_int !npop in
        incr npop;
        let iout = if nb t then begin
            let n = bytes_of_hex (next t) in let o = nz t in let l = nz t in
            let pv = bytes_of_hex (next t) in let sd = nz t in Some (n, o, l, pv, sd) end else None in
        let pre = !q in
        let (q', mout) = M.pop pre now in
        let ready = List.filter (fun g -> M.group_ready g now) pre in
        (* ---- oracles against the spec computed on the agreed pre-state ---- *)
        (match iout with
         | None ->
             if ready <> [] then oracle v "idle_while_ready" (mout = None)
         | Some (n, _, _, pv, _) ->
             (match find_file_group n pre with
              | None -> oracle v "emits_unknown_file" false
              | Some g ->
                  let pr = g.M.gtag.M.tprio in
                  if List.exists (fun h -> M.Z.ltb pr h.M.gtag.M.tprio) ready then
                    oracle v "priority_inversion" false;
                  let order = g.M.gtag.M.torder in
                  let pending = List.filter (fun f -> not (M.is_alloc f)) g.M.gfiles in
                  let f = List.find (fun f -> M.name_eqb f.M.fname n) g.M.gfiles in
                  (if M.Z.eqb order M.oNONE then
                     (match pending with
                      | x :: _ -> if not (M.name_eqb x.M.fname n) then oracle v "not_next_in_arrival_order" false
                      | [] -> oracle v "emits_allocated_file" false)
                   else if not (List.for_all (fun y -> M.le_order order f y) pending) then
                     oracle v "not_least_in_order" false);
                  (* C11: the chunks of a (version of a) file are handed out one after the other from byte 0:
                     the slice starts where the allocation of the agreed pre-state stands, is not empty and
                     stays inside the file *)
                  (match iout with
                   | Some (_, o, l, _, _) when not f.M.frec ->
                       if not (M.Z.eqb o f.M.falloc) || not (M.Z.ltb M.Z0 l) || M.Z.ltb f.M.fsize (M.Z.add o l) then
                         oracle v "chunk_not_contiguous_with_allocation" false
                   | _ -> ());
                  (* predecessor *)
                  let expect_prev =
                    if M.Z.eqb order M.oNONE then []
                    else if f.M.frec then f.M.fprev
                    else begin
                      (* pre-allocated placeholders standing before f count as "queued as already sent" *)
                      let rec before acc = function
                        | [] -> acc
                        | x :: r -> if M.name_eqb x.M.fname n then acc
                                    else before (if M.is_alloc x then Some x.M.fname else acc) r in
                      match before None g.M.gfiles with
                      | Some x -> x
                      | None -> (match g.M.gdone with x :: _ -> x | [] -> [])
                    end in
                  let expect_prev = if M.name_eqb expect_prev n then [] else expect_prev in
                  if M.name_eqb pv n && n <> [] then oracle v "names_itself" false;
                  if not (M.name_eqb pv expect_prev) then begin
                    let model_same = (match mout with Some m -> M.name_eqb m.M.pprev pv | None -> false) in
                    if !repushed then oracle v "prev_chain_lost_on_repush" model_same
                    else oracle v "wrong_predecessor" false
                  end));
        (* ---- comparison ---- *)
        (match iout, mout with
         | None, None -> ()
         | Some (n, o, l, pv, sd), Some m ->
             if not (M.name_eqb n m.M.pname) then begin
               let gi = (match find_file_group n pre with Some g -> Some g.M.gname | None -> None) in
               let gm = (match find_file_group m.M.pname pre with Some g -> Some g.M.gname | None -> None) in
               diff v ((if gi = gm then "pop-file@" else "pop-group@") ^ k) end
             else if not (M.Z.eqb o m.M.poff && M.Z.eqb l m.M.plen) then diff v ("pop-slice@" ^ k)
             else if not (M.name_eqb pv m.M.pprev) then diff v ("pop-prev@" ^ k)
             else if not (M.Z.eqb sd m.M.psend) then diff v ("pop-send@" ^ k)
         | _ -> diff v ("pop-nil@" ^ k));
        (* does the model itself break the predecessor rule here (the re-push finding)? *)
        (match mout with
         | Some m ->
             (match find_file_group m.M.pname pre with
              | Some g ->
                  let order = g.M.gtag.M.torder in
                  let f = List.find (fun f -> M.name_eqb f.M.fname m.M.pname) g.M.gfiles in
                  if not (M.Z.eqb order M.oNONE) && not f.M.frec then begin
                    let rec before acc = function
                      | [] -> acc
                      | x :: r -> if M.name_eqb x.M.fname m.M.pname then acc
                                  else before (if M.is_alloc x then Some x.M.fname else acc) r in
                    let e = (match before None g.M.gfiles with Some x -> x
                             | None -> (match g.M.gdone with x :: _ -> x | [] -> [])) in
                    let e = if M.name_eqb e m.M.pname then [] else e in
                    if not (M.name_eqb e m.M.pprev) then v.model_fails <- true
                  end
              | None -> ())
         | None -> ());
        let served = match iout with
          | Some (n, _, _, _, _) -> (match find_file_group n pre with Some g -> Some g.M.gname | None -> None)
          | None -> None in
        hist := (served, List.map (fun g -> (g.M.gname, g.M.gtag.M.tprio)) ready) :: !hist;
        if v.diffs <> [] then stop := true;
        q := q') ops;
  (* ---- rotation: B ready from A's serving through A's next serving => B served in between ---- *)
  let h = Array.of_list (List.rev !hist) in
  let n = Array.length h in
  for i = 0 to n - 1 do
    match h.(i) with
    | (Some a, ready_i) ->
        let pa = (try List.assoc a ready_i with Not_found -> M.Z0) in
        List.iter (fun (b, pb) ->
          if b <> a && M.Z.eqb pa pb then begin
            let rec scan j =
              if j < n then
                match h.(j) with
                | (sj, rj) ->
                    if not (List.mem_assoc b rj) then ()           (* B no longer ready: released *)
                    else if sj = Some b then ()                     (* served: fine *)
                    else if sj = Some a then oracle v "round_robin_bypassed" false
                    else scan (j + 1) in
            scan (i + 1)
          end) ready_i
    | _ -> ()
  done;
  v.cls <- (if !repushed then "F" else "D");
  let served = List.filter_map (fun (s, _) -> s) (Array.to_list h) in
  v.nontrivial <- List.length (List.sort_uniq compare served) >= 2 || List.length served >= 4


(* ============================ suite L : transfer logs (C18) ================== *)
let has_colon l = List.exists (fun c -> int_of_z c = 58) l
let digits_of_string s = List.init (String.length s) (fun i -> z_of_int (Char.code s.[i]))
(* strconv.ParseInt(field, 10, 64) with the error ignored, rendered back in decimal (library code, harness glue) *)
let parse_int_field (f : M.z list) : M.z list =
  let s = String.concat "" (List.map (fun z -> String.make 1 (Char.chr (int_of_z z land 255))) f) in
  let ok = String.length s > 0 && (let body = if s.[0] = '-' || s.[0] = '+' then String.sub s 1 (String.length s - 1) else s in
            String.length body > 0 && String.length body < 19 && String.for_all (fun c -> c >= '0' && c <= '9') body) in
  if ok then digits_of_string (Z.to_string (Z.of_string s)) else digits_of_string "0"

let suite_log t v =
  let kind = ni t in
  let d0 = ni t in
  let nd = ni t in
  let days = times nd (fun () ->
    let off = ni t in
    let nr = ni t in
    (off, times nr (fun () ->
      let n = bytes_of_hex (next t) in let r = bytes_of_hex (next t) in
      let h = bytes_of_hex (next t) in let sz = next t in (n, r, h, sz)))) in
  let nq = ni t in
  let qs = times nq (fun () ->
    let n = bytes_of_hex (next t) in let h = bytes_of_hex (next t) in
    let ao = ni t in let asec = ni t in let bo = ni t in let bsec = ni t in (n, h, ao, asec, bo, bsec)) in
  expect t "=";
  let raw = List.map (fun (off, _) -> let nl = ni t in (off, times nl (fun () -> bytes_of_hex (next t)))) days in
  let answers = times nq (fun () -> nb t) in
  let np = ni t in
  let iparsed = times np (fun () ->
    let n = bytes_of_hex (next t) in let r = bytes_of_hex (next t) in let h = bytes_of_hex (next t) in
    let sz = next t in let tm = next t in (n, r, h, sz, tm)) in
  (* optional: the same look-ups made BEFORE anything was written, on the same log object *)
  if not (eol t) then begin
    expect t "P";
    let k = ni t in
    let early = times k (fun () -> nb t) in
    if List.exists (fun a -> a) early then oracle v "found_before_written" false
  end;
  let lg = List.map (fun (off, ls) -> (z_of_int (d0 + off), ls)) raw in
  let colon = ref false in
  List.iter (fun (_, rs) -> List.iter (fun (n, r, h, _) -> if has_colon n || has_colon r || has_colon h then colon := true) rs) days;
  List.iter (fun (n, h, _, _, _, _) -> if has_colon n || has_colon h then colon := true) qs;
  (* what was written, per intention, must be what is on disk (the writer itself) *)
  List.iter2 (fun (off, rs) (_, ls) ->
    if List.length rs <> List.length ls then diff v ("written-count@" ^ string_of_int off)
    else List.iter2 (fun (n, r, h, sz) line ->
      let ok =
        if kind = 0 then
          (match M.parse_line line with
           | Some ((((pn, pr), ph), psz), _) when not !colon ->
               M.name_eqb pn n && M.name_eqb pr r && M.name_eqb ph h && M.name_eqb psz (digits_of_string sz)
           | Some _ -> true
           | None -> false)
        else M.line_matches n h line || !colon in
      if not ok then oracle v "written_line_wrong" false) rs ls) days raw;
  (* look-ups *)
  List.iteri (fun k ((n, h, ao, asec, bo, bsec), ia) ->
    let start = z_of_int ((d0 + ao) * 86400 + asec) and stop = z_of_int ((d0 + bo) * 86400 + bsec) in
    let ma = M.search lg n h start stop in
    if ma <> ia then diff v ("lookup@" ^ string_of_int k);
    let lo = min (d0 + ao) (d0 + bo) and hi = max (d0 + ao) (d0 + bo) in
    let exact_on pred = List.exists (fun (off, rs) ->
      pred (d0 + off) && List.exists (fun (rn, _, rh, _) -> M.name_eqb rn n && (h = [] || M.name_eqb rh h)) rs) days in
    let empty_window = M.Z.eqb start stop in
    if ia && not (exact_on (fun d -> d >= lo - 1 && d <= hi + 1)) then
      oracle v (if !colon then "lookup_false_positive_colon_name" else "lookup_false_positive") ma;
    if (not ia) && n <> [] && not empty_window && exact_on (fun d -> d >= lo && d <= hi) then
      oracle v (if !colon then "lookup_missed_colon_name" else "lookup_missed") (not ma);
    if ma && not (exact_on (fun d -> d >= lo - 1 && d <= hi + 1)) then v.model_fails <- true;
    if (not ma) && n <> [] && not empty_window && exact_on (fun d -> d >= lo && d <= hi) then v.model_fails <- true)
    (List.combine qs answers);
  (* replay *)
  if kind = 0 then begin
    let sorted = List.sort (fun (a, _) (b, _) -> compare a b) (List.combine (List.map fst days) (List.map snd raw)) in
    let mparsed = List.concat (List.map (fun (_, ls) -> List.filter_map (fun l -> M.parse_line l) ls) sorted) in
    let intended = List.concat (List.map (fun (_, rs) -> rs) (List.sort (fun (a, _) (b, _) -> compare a b) days)) in
    let same_m = List.length mparsed = List.length iparsed &&
      List.for_all2 (fun ((((pn, pr), ph), psz), ptm) (n, r, h, sz, tm) ->
        M.name_eqb pn n && M.name_eqb pr r && M.name_eqb ph h &&
        M.name_eqb (parse_int_field psz) (digits_of_string sz) && M.name_eqb (parse_int_field ptm) (digits_of_string tm)) mparsed iparsed in
    if not same_m then diff v "replay";
    let same_i = List.length intended = List.length iparsed &&
      List.for_all2 (fun (n, r, h, sz) (pn, pr, ph, psz, _) ->
        M.name_eqb pn n && M.name_eqb pr r && M.name_eqb ph h && sz = psz) intended iparsed in
    if not same_i then oracle v (if !colon then "replay_wrong_colon_name" else "replay_wrong") same_m;
    let model_ok = List.length intended = List.length mparsed &&
      List.for_all2 (fun (n, r, h, sz) ((((pn, pr), ph), psz), _) ->
        M.name_eqb pn n && M.name_eqb pr r && M.name_eqb ph h && M.name_eqb psz (digits_of_string sz)) intended mparsed in
    if not model_ok then v.model_fails <- true
  end;
  v.cls <- (if !colon then "F" else "D");
  v.nontrivial <- List.exists (fun a -> a) answers && List.exists (fun a -> not a) answers

let suite_log_conc t v =
  let n = ni t in
  let expected = times n (fun () -> next t) in
  expect t "=";
  let m = ni t in
  let found = times m (fun () -> next t) in
  if List.sort compare expected <> List.sort compare found then oracle v "interleaved_or_lost_line" false;
  v.cls <- "D"; v.nontrivial <- true


(* ============================ suite S : receiver / stage ===================== *)
let md5_name (body : M.z list) : M.z list =
  let b = Bytes.create (List.length body) in
  List.iteri (fun i z -> Bytes.set b i (Char.chr ((int_of_z z) land 255))) body;
  digits_of_string (Digest.to_hex (Digest.bytes b))

let name_of_string (s : string) : M.z list = List.init (String.length s) (fun i -> z_of_int (Char.code s.[i]))
let string_of_name (n : M.z list) = String.concat "" (List.map (fun z -> String.make 1 (Char.chr ((int_of_z z) land 255))) n)

type snap = {
  sfiles : (string * string * int * string) list;                 (* name ext size md5 *)
  scmps : (string * string * string * M.z * string * (M.z * M.z) list) list;   (* name renamed prev size hash parts *)
  sfinals : (string * int * string) list;
  slog : (string * string * string * string) list;
}

let parse_cmp t =
  let n = str_of_hex (next t) in let r = str_of_hex (next t) in let pv = str_of_hex (next t) in
  let sz = nz t in let h = str_of_hex (next t) in let np = ni t in
  let ps = times np (fun () -> let b = nz t in let e = nz t in (b, e)) in
  (n, r, pv, sz, h, ps)

let parse_snap t =
  let nf = ni t in
  let sfiles = times nf (fun () -> let n = str_of_hex (next t) in let e = next t in let sz = ni t in let m = next t in (n, e, sz, m)) in
  let nc = ni t in
  let scmps = times nc (fun () -> parse_cmp t) in
  let nfin = ni t in
  let sfinals = times nfin (fun () -> let n = str_of_hex (next t) in let sz = ni t in let m = next t in (n, sz, m)) in
  let nl = ni t in
  let slog = times nl (fun () -> let n = str_of_hex (next t) in let r = str_of_hex (next t) in let h = str_of_hex (next t) in let sz = next t in (n, r, h, sz)) in
  { sfiles; scmps; sfinals; slog }

let model_snap (st : M.stage) : snap =
  let body_entry ext (n, d) = (string_of_name n, ext, List.length d, string_of_name (md5_name d)) in
  let sfiles =
    List.map (fun (n, sf) -> body_entry "part" (n, sf.M.sf_data)) st.M.parts
    @ List.map (body_entry "full") st.M.fulls @ List.map (body_entry "wait") st.M.waits in
  let scmps = List.map (fun (n, c) ->
    (string_of_name n, string_of_name c.M.c_renamed, string_of_name c.M.c_prev, c.M.c_size, string_of_name c.M.c_hash, c.M.c_parts)) st.M.cmps in
  let sfinals = List.map (fun (n, d) -> (string_of_name n, List.length d, string_of_name (md5_name d))) st.M.finals
                @ List.map (fun (n, d) -> (string_of_name n ^ ".lck", List.length d, string_of_name (md5_name d))) st.M.flcks in
  let slog = List.map (fun r -> (string_of_name r.M.l_name, string_of_name r.M.l_renamed, string_of_name r.M.l_hash, string_of_z r.M.l_size)) st.M.rlog in
  { sfiles; scmps; sfinals; slog }

let cmp_equal (n1, r1, p1, s1, h1, ps1) (n2, r2, p2, s2, h2, ps2) =
  n1 = n2 && r1 = r2 && p1 = p2 && M.Z.eqb s1 s2 && h1 = h2 && M.same_set_b ps1 ps2
  && M.complete ps1 s1 = M.complete ps2 s2

let cmps_equal a b =
  let key (n, _, _, _, _, _) = n in
  let a = List.sort (fun x y -> compare (key x) (key y)) a and b = List.sort (fun x y -> compare (key x) (key y)) b in
  List.length a = List.length b && List.for_all2 cmp_equal a b

let suite_stage t v =
  let now = nz t in
  let nops = ni t in
  let name_tok () = bytes_of_hex (next t) in
  let ops = times nops (fun () ->
    match next t with
    | "PR" -> let n = name_tok () in let sz = nz t in `PR (n, sz)
    | "RC" ->
        let n = name_tok () in let r = name_tok () in let pv = name_tok () in let sz = nz t in
        let h = name_tok () in let b = nz t in let e = nz t in let tm = nz t in
        let d = bytes_of_hex (next t) in let rerr = nb t in
        `RC ({ M.p_name = n; p_renamed = r; p_prev = pv; p_size = sz; p_hash = h; p_beg = b; p_end = e; p_time = tm }, d, rerr)
    | "ST" -> `ST | "SC" -> `SC | "CL" -> `CL | "RS" -> `RS | "TF" -> `TF
    | "RQ" ->
        let k = ni t in
        `RQ (times k (fun () ->
          let n = name_tok () in let r = name_tok () in let pv = name_tok () in let h = name_tok () in
          let b = nz t in let e = nz t in let tm = nz t in
          { M.p_name = n; p_renamed = r; p_prev = pv; p_size = M.Z0; p_hash = h; p_beg = b; p_end = e; p_time = tm }))
    | "VH" -> `VH
    | "VR" -> `VR
    | "SQ" -> let n = name_tok () in let off = ni t in `SQ (n, off, [])
    | "SV" -> let n = name_tok () in let off = ni t in let h = name_tok () in `SQ (n, off, h)
    | "IM" ->
        let nann = ni t in
        let ann = times nann (fun () ->
          let n = name_tok () in let h = name_tok () in let c = bytes_of_hex (next t) in
          let pv = name_tok () in let rn = name_tok () in (n, h, c, pv, rn)) in
        let bodies () = let k = ni t in times k (fun () -> let n = name_tok () in let d = bytes_of_hex (next t) in (n, d)) in
        let ps = bodies () in let fs = bodies () in let ws = bodies () in
        let nc = ni t in
        let cs = times nc (fun () ->
          let (n, r, pv, sz, h, parts) = parse_cmp t in
          (digits_of_string n, { M.c_renamed = digits_of_string r; c_prev = digits_of_string pv; c_size = sz;
                                 c_hash = digits_of_string h; c_parts = parts })) in
        let fins = bodies () in let lcks = bodies () in
        let nl = ni t in
        let recs = times nl (fun () ->
          let n = name_tok () in let r = name_tok () in let h = name_tok () in let sz = nz t in let tm = nz t in
          { M.l_name = n; l_renamed = r; l_hash = h; l_size = sz; l_time = tm }) in
        let img = { M.init_stage with
                    M.parts = List.map (fun (n, d) -> (n, { M.sf_data = d; sf_old = false })) ps;
                    fulls = fs; waits = ws; cmps = cs; finals = fins; flcks = lcks; rlog = recs } in
        `IM (ann, img)
    | "AG" -> `AG (name_tok ())
    | "AA" -> `AA (nz t)
    | "CC" -> `CC
    | "TM" -> let n = name_tok () in let e = nz t in let d = bytes_of_hex (next t) in `TM (n, e, d)
    | s -> raise (Malformed ("stage op " ^ s))) in
  expect t "=";
  let st = ref M.init_stage in
  let stop = ref false in
  let idx = ref 0 in
  (* ghost bookkeeping for the oracles (from the ops and the implementation's own answers) *)
  let announced : (string, string) Hashtbl.t = Hashtbl.create 8 in          (* name -> announced hashes *)
  let vhold = ref false in                                                    (* the validators are held back (op VH) *)
  let aged = ref false in                                                     (* time passed / the cache was cleaned *)
  let ann_prev : (string * string, string) Hashtbl.t = Hashtbl.create 8 in  (* (name,hash) -> prev *)
  let written : (string * string, (M.z * M.z)) Hashtbl.t = Hashtbl.create 8 in (* (name,hash) -> acknowledged written ranges *)
  let short_read = ref false and reannounce = ref false in
  let crash_image = ref None in
  let after_recover = ref false in
  let cleared : (string, unit) Hashtbl.t = Hashtbl.create 4 in
  let cleaned_once = ref false in
  let cleaned_after_div = ref false in
  (* is the file on a cycle of announced predecessor references (any version)? then the
     periodic cleaner may legitimately give up the order for it *)
  let in_cycle n =
    let prevs x = Hashtbl.fold (fun (nm, _) p acc -> if nm = x && p <> "" then p :: acc else acc) ann_prev [] in
    let rec reach frontier seen steps =
      if steps = 0 then false
      else
        let next = List.concat (List.map prevs frontier) in
        if List.mem n next then true
        else
          let fresh = List.filter (fun x -> not (List.mem x seen)) next in
          if fresh = [] then false else reach fresh (seen @ fresh) (steps - 1) in
    reach [n] [n] 50 in
  let last_snap = ref None in
  (* validated (held) copies the implementation showed at some point: (name, md5) *)
  let all_prevs : (string * string, string) Hashtbl.t = Hashtbl.create 8 in    (* every predecessor any part of (name, hash) announced *)
  let held_seen : (string * string) list ref = ref [] in
  let tampered : string list ref = ref [] in
  let note_held (sn : snap) =
    List.iter (fun (n, e, _, m) -> if e = "wait" && not (List.mem (n, m) !held_seen) then held_seen := (n, m) :: !held_seen) sn.sfiles in
  let restarted_since_log = ref false in
  ignore restarted_since_log;
  let debug = (try Sys.getenv "MODELRUN_DEBUG" <> "" with Not_found -> false) in
  let show (sn : snap) =
    String.concat " " (List.map (fun (n, e, sz, m) -> Printf.sprintf "%s.%s:%d:%s" n e sz (String.sub m 0 6)) (List.sort compare sn.sfiles))
    ^ " | cmps: " ^ String.concat " " (List.map (fun (n, r, p, sz, h, ps) -> Printf.sprintf "%s(r=%s,p=%s,sz=%s,h=%s,[%s])" n r p (string_of_z sz) (if String.length h > 6 then String.sub h 0 6 else h)
         (String.concat ";" (List.map (fun (b, e) -> string_of_z b ^ "-" ^ string_of_z e) ps))) sn.scmps)
    ^ " | finals: " ^ String.concat " " (List.map (fun (n, sz, m) -> Printf.sprintf "%s:%d:%s" n sz (String.sub m 0 6)) (List.sort compare sn.sfinals))
    ^ " | log: " ^ String.concat " " (List.map (fun (n, r, h, sz) -> Printf.sprintf "%s/%s/%s/%s" n r (if String.length h > 6 then String.sub h 0 6 else h) sz) sn.slog) in
  let check_snapshot k (isn : snap) (msn : snap) =
    let ks = string_of_int k in
    if debug then Printf.eprintf "op %d snapshot\n  impl : %s\n  model: %s\n" k (show isn) (show msn);
    if List.sort compare isn.sfiles <> List.sort compare msn.sfiles then diff v ("stage-files@" ^ ks);
    if not (cmps_equal isn.scmps msn.scmps) then diff v ("companions@" ^ ks);
    if List.sort compare isn.sfinals <> List.sort compare msn.sfinals then diff v ("finals@" ^ ks);
    if List.sort compare isn.slog <> List.sort compare msn.slog then diff v ("log@" ^ ks);
    (* C01: every delivered file is byte-identical to an announced version and its hash is the logged one *)
    List.iter (fun (tn, _, m) ->
      if not (Filename.check_suffix tn ".lck") then
      let logged = List.exists (fun (n, r, h, _) -> (if r = "" then n else r) = tn && h = m) isn.slog in
      let announced_ok = List.exists (fun (n, r, h, _) -> (if r = "" then n else r) = tn && List.mem h (Hashtbl.find_all announced n) && h = m) isn.slog in
      if not (logged && announced_ok) then
        oracle v "delivered_content_not_validated" (List.mem (tn, 0, m) (List.map (fun (a, _, c) -> (a, 0, c)) msn.sfinals) && !reannounce)) isn.sfinals;
    (* C05: one log record per validated version *)
    let rec dups = function [] -> false | (n, _, h, _) :: r -> List.exists (fun (n', _, h', _) -> n = n' && h = h') r || dups r in
    if dups isn.slog then begin
      (* by what the history contains: several versions of the duplicated name were announced (the
         recorded one-version-per-name limits), or one version only - then: did the in-memory record
         age out (time passed / cache cleaned) in between, or not even that *)
      let rec dup_names = function [] -> [] | (n, _, h, _) :: r ->
        if List.exists (fun (n', _, h', _) -> n = n' && h = h') r then n :: dup_names r else dup_names r in
      let multi = List.exists (fun n -> List.length (Hashtbl.find_all announced n) > 1) (dup_names isn.slog) in
      let name = if multi then "logged_twice" else if !aged then "logged_twice_after_record_aged_out" else "logged_twice_single_version" in
      oracle v name (dups msn.slog)
    end;
    (* C04: never logged before its predecessor *)
    let rec order seen = function
      | [] -> ()
      | (n, _, h, _) :: rest ->
          (match Hashtbl.find_opt ann_prev (n, h) with
           | Some p when p <> "" && p <> n && not (Hashtbl.mem cleared n) && not (!cleaned_once && in_cycle n) ->
               if not (List.mem p seen) then
                 oracle v "delivered_before_predecessor"
                   (let rec morder seen = function
                      | [] -> false
                      | (n', _, h', _) :: r' -> (n' = n && h' = h && not (List.mem p seen)) || morder (n' :: seen) r' in
                    morder [] msn.slog)
           | _ -> ());
          order (n :: seen) rest in
    order [] isn.slog;
    (* C09 at stage level: a companion claims only bytes acknowledged and written for that version *)
    List.iter (fun (n, _, _, _, h, ps) ->
      let w = Hashtbl.find_all written (n, h) in
      if not (M.subset_b ps w) then oracle v "companion_claims_unwritten" false) isn.scmps;
    note_held isn;
    last_snap := Some isn in
  List.iter (fun op ->
    if not !stop then begin
      let k = !idx in incr idx;
      let ks = string_of_int k in
      (match op with
       | `PR (n, sz) -> ignore (next t); st := M.prepare !st n sz
       | `RC (p, d, rerr) ->
           let iok = nb t in
           let ns = string_of_name p.M.p_name and hs = string_of_name p.M.p_hash in
           (match Hashtbl.find_all announced ns with
            | [] -> ()
            | hl -> if not (List.mem hs hl) then begin
                      (* another version announced while an earlier one may still be staged *)
                      if M.ahas p.M.p_name !st.M.parts || M.ahas p.M.p_name !st.M.fulls || M.ahas p.M.p_name !st.M.waits
                      then reannounce := true end);
           if not (List.mem hs (Hashtbl.find_all announced ns)) then Hashtbl.add announced ns hs;
           (* the predecessor that counts for the order oracle is the one announced while the version was still
              on its way: what a late duplicate says after the version has been put away orders nothing *)
           if not (List.exists (fun r -> M.name_eqb r.M.l_name p.M.p_name && M.name_eqb r.M.l_hash p.M.p_hash) !st.M.rlog) then
             Hashtbl.replace ann_prev (ns, hs) (string_of_name p.M.p_prev);
           Hashtbl.add all_prevs (ns, hs) (string_of_name p.M.p_prev);
           (* Receive first has the receive log read back to the file's time (clamped as in Received()) *)
           let monthago = M.Z.sub now (z_of_int (30 * 86400)) in
           let whn = if M.Z.ltb now p.M.p_time then now else if M.Z.ltb p.M.p_time monthago then monthago else p.M.p_time in
           st := fst (M.sstep md5_name !st (M.OBuildCache (now, whn)));
           let (st', mok) = M.receive !st p d rerr in
           if mok <> iok then diff v ("receive@" ^ ks);
           if iok then begin
             let len = z_of_int (List.length d) in
             Hashtbl.add written (ns, hs) (p.M.p_beg, M.Z.add p.M.p_beg len);
             if M.Z.ltb len (M.Z.sub p.M.p_end p.M.p_beg) then short_read := true
           end;
           (* (validators held back: the file stays in the model's validation queue) *)
           st := if !vhold then st' else M.settle md5_name M.sETTLE_FUEL st' now
       | `VH -> ignore (next t); st := M.settle md5_name M.sETTLE_FUEL !st now; vhold := true
       | `VR ->
           vhold := false;
           let isn = parse_snap t in
           st := M.settle md5_name M.sETTLE_FUEL !st now;
           check_snapshot k isn (model_snap !st)
       | `ST ->
           let isn = parse_snap t in
           st := M.settle md5_name M.sETTLE_FUEL !st now;
           check_snapshot k isn (model_snap !st)
       | `TF ->
           let isn = parse_snap t in
           st := M.settle md5_name M.sETTLE_FUEL (M.timers_fire (M.settle md5_name M.sETTLE_FUEL !st now)) now;
           check_snapshot k isn (model_snap !st)
       | `RS ->
           (* the modification time of the oldest companion on the stage, as the implementation found it
              (0: none): an input of the model, which keeps no file times *)
           let oldest = nz t in
           let oldest = if M.Z.eqb oldest M.Z0 then now else oldest in
           let isn = parse_snap t in
           st := M.settle md5_name M.sETTLE_FUEL (M.restart md5_name (M.settle md5_name M.sETTLE_FUEL !st now) now oldest) now;
           let msn = model_snap !st in
           (match !crash_image with
            | Some (ann, img) when not !after_recover ->
                after_recover := true;
                let target n rn = if rn = [] then string_of_name n else string_of_name rn in
                (* nothing that was validated (held in .wait) or logged before the crash may be lost or left undelivered *)
                List.iter (fun (n, _, _, _, rn) ->
                  let ns = string_of_name n in
                  let was_wait = M.ahas n img.M.waits in
                  let was_logged = List.exists (fun r -> M.name_eqb r.M.l_name n) img.M.rlog in
                  if was_wait || was_logged then begin
                    let ok = List.exists (fun (fn, e, _, _) -> fn = ns && e = "wait") isn.sfiles
                             || List.exists (fun (fn, _, _) -> fn = target n rn) isn.sfinals in
                    if not ok then
                      oracle v "validated_file_lost_or_misnamed_after_crash"
                        (not (List.exists (fun (fn, e, _, _) -> fn = ns && e = "wait") msn.sfiles
                              || List.exists (fun (fn, _, _) -> fn = target n rn) msn.sfinals))
                  end) ann;
                (* the record of partly received files must describe bytes that are really there *)
                List.iter (fun (n, _, _, _, h, ps) ->
                  match List.find_opt (fun (an, ah, _, _, _) -> string_of_name an = n && string_of_name ah = h) ann with
                  | Some (an, _, content, _, _) ->
                      (match List.find_opt (fun (pn, _) -> M.name_eqb pn an) (!st).M.parts with
                       | Some (_, sf) ->
                           let okr (b, e) =
                             let b = int_of_z b and e = int_of_z e in
                             e <= List.length sf.M.sf_data && e <= List.length content &&
                             (let rec cmp i = i >= e || (M.Z.eqb (List.nth sf.M.sf_data i) (List.nth content i) && cmp (i + 1)) in cmp b) in
                           if not (List.for_all okr ps) then oracle v "record_claims_bytes_not_held_after_crash" false
                       | None -> ())
                  | None -> ()) isn.scmps
            | _ -> ());
           check_snapshot k isn msn
       | `CL ->
           let isn = parse_snap t in
           let before = M.settle md5_name M.sETTLE_FUEL !st now in
           let pre = (match !last_snap with Some s -> Some s | None -> None) in
           cleaned_once := true;
           let cleaned = M.clean before in
           (* which waiters had their predecessor cleared by the cleaner (cycle) *)
           List.iteri (fun o f ->
             let f' = List.nth cleaned.M.heap o in
             if f.M.f_prev <> [] && f'.M.f_prev = [] then Hashtbl.replace cleared (string_of_name f.M.f_name) ()) before.M.heap;
           st := M.settle md5_name M.sETTLE_FUEL cleaned now;
           let msn = model_snap !st in
           (* C20: cleaning removes only partials/companions of versions already logged as received *)
           let mpre = model_snap before in
           ignore pre;
           List.iter (fun (n, ext, _, _) ->
             if not (List.exists (fun (n', e', _, _) -> n' = n && e' = ext) isn.sfiles) then begin
               (* disappeared during cleaning *)
               if ext <> "part" then begin
                 (* .full / .wait may only leave by being validated / delivered *)
                 let moved = (ext = "full" && List.exists (fun (n', e', _, _) -> n' = n && e' = "wait") isn.sfiles)
                             || List.exists (fun (ln, _, _, _) -> ln = n) isn.slog in
                 if not moved then oracle v "clean_removed_validated_data" false
               end else begin
                 let h = (match List.find_opt (fun (cn, _, _, _, _, _) -> cn = n) mpre.scmps with
                          | Some (_, _, _, _, h, _) -> h | None -> "") in
                 let ok = List.exists (fun (ln, _, lh, _) -> ln = n && (h = "" || lh = h)) isn.slog
                          (* a late duplicate of a version that is validated and held counts as received *)
                          || List.exists (fun (wn, we, _, wm) -> wn = n && we = "wait" && (h = "" || wm = h)) isn.sfiles in
                 if not ok then
                   oracle v "clean_removed_undelivered_partial"
                     (not (List.exists (fun (n', e', _, _) -> n' = n && e' = "part") msn.sfiles));
                 (* a partial younger than the cleaning threshold belongs to a transfer that is
                    under way (it may just have been created by Prepare): never removed *)
                 let young = (match M.alookup (name_of_string n) before.M.parts with
                              | Some sf -> not sf.M.sf_old | None -> false) in
                 if young then
                   oracle v "clean_removed_partial_of_running_transfer"
                     (not (List.exists (fun (n', e', _, _) -> n' = n && e' = "part") msn.sfiles))
               end
             end) mpre.sfiles;
           List.iter (fun (n, _, _, _, h, _) ->
             if not (List.exists (fun (n', _, _, _, _, _) -> n' = n) isn.scmps) then
               if not (List.exists (fun (ln, _, lh, _) -> ln = n && lh = h) isn.slog) then
                 oracle v "clean_removed_undelivered_companion"
                   (not (List.exists (fun (n', _, _, _, _, _) -> n' = n) msn.scmps))) mpre.scmps;
           check_snapshot k isn msn
       | `RQ ps ->
           let ia = nz t in
           let (st', ma) = M.received_q !st now ps in
           if debug then Printf.eprintf "op %d received impl=%s model=%s\n" k (string_of_z ia) (string_of_z ma);
           (* C05: a retransmission of a version that is delivered and logged is answered "already
              received" - also when the delivery is known from the log only *)
           (match !last_snap with
            | Some sn ->
                (* the version delivered LAST under a name vs. an older one that a newer version replaced *)
                let last_hash nm = List.fold_left (fun acc (ln, _, lh, _) -> if ln = nm then Some lh else acc) None sn.slog in
                let logged p = List.exists (fun (ln, _, lh, _) ->
                  ln = string_of_name p.M.p_name && lh = string_of_name p.M.p_hash) sn.slog in
                let latest p = last_hash (string_of_name p.M.p_name) = Some (string_of_name p.M.p_hash) in
                let rec lead f = function p :: r when f p -> 1 + lead f r | _ -> 0 in
                let want = lead latest ps in
                if int_of_z ia < want then begin
                  (* the recorded finding (C05-F1r) needs another version of the name to have been
                     announced; with one version only it is something else *)
                  let multi = List.exists (fun p -> List.length (Hashtbl.find_all announced (string_of_name p.M.p_name)) > 1) ps in
                  oracle v (if multi then "delivered_version_not_recognised" else "delivered_version_not_recognised_single_version") (int_of_z ma < want)
                end else begin
                  let want2 = lead logged ps in
                  if int_of_z ia < want2 then oracle v "superseded_version_not_recognised" (int_of_z ma < want2)
                end
            | None -> ());
           if not (M.Z.eqb ia ma) then diff v ("received@" ^ ks);
           (* C09: a part is counted as received only if it is on record (or its file is held / delivered as
              that version): on the agreed pre-state the model's answer IS the length of the leading run of
              such parts (C09_received_counts_recorded), so a larger answer claims a part nobody recorded *)
           if int_of_z ia > int_of_z ma then oracle v "counted_part_not_on_record" false;
           st := st'
       | `SQ (n, off, h) ->
           let ia = ni t in
           let sent = if off = 0 then M.Z0 else M.Z.add now (z_of_int off) in
           let (st', ma) = M.status_q !st now n h sent in
           if debug then Printf.eprintf "op %d status impl=%d model=%d\n" k ia (int_of_z ma);
           if ia <> int_of_z ma then diff v ("status@" ^ ks);
           (* C02 (receiver half): a positive answer needs a durably held validated copy *)
           if ia = 2 || ia = 3 then begin
             if not (M.ahas n st'.M.waits || M.log_has st' n []) then oracle v "positive_status_without_copy" (int_of_z ma = ia);
             (* ... of the version that was asked about *)
             if h <> [] then begin
               let held = (match M.alookup n st'.M.waits with Some b -> md5_name b = h | None -> false) in
               if not (held || M.log_has st' n h) then oracle v "positive_status_for_another_version" (int_of_z ma = ia)
             end
           end;
           st := st'
       | `SC ->
           let nc = ni t in
           if nc < 0 then diff v ("scan-error@" ^ ks)
           else begin
             let ic = times nc (fun () -> parse_cmp t) in
             let (st', mc) = M.scan_q !st in
             let mc = List.map (fun (n, c) ->
               (string_of_name n, string_of_name c.M.c_renamed, string_of_name c.M.c_prev, c.M.c_size, string_of_name c.M.c_hash, c.M.c_parts)) mc in
             if not (cmps_equal ic mc) then diff v ("scan@" ^ ks);
             st := st'
           end
       | `IM (ann, img) ->
           ignore (next t);
           crash_image := Some (ann, img);
           List.iter (fun (n, h, _, pv, _) ->
             let ns = string_of_name n and hs = string_of_name h in
             if not (List.mem hs (Hashtbl.find_all announced ns)) then Hashtbl.add announced ns hs;
             Hashtbl.replace ann_prev (ns, hs) (string_of_name pv)) ann;
           (* bytes that are in the image's staged files count as written for the soundness oracle *)
           List.iter (fun (n, c) ->
             List.iter (fun r -> Hashtbl.add written (string_of_name n, string_of_name c.M.c_hash) r) c.M.c_parts) img.M.cmps;
           st := fst (M.sstep md5_name !st (M.OImage img))
       | `AG n -> ignore (next t); st := fst (M.sstep md5_name !st (M.OAge n))
       | `AA d ->
           aged := true;
           ignore (next t);
           st := fst (M.sstep md5_name (M.settle md5_name M.sETTLE_FUEL !st now) (M.OAgeAll d))
       | `CC ->
           aged := true;
           let n = ni t in
           let ic = times n (fun () -> let nm = str_of_hex (next t) in let stt = ni t in (nm, stt)) in
           st := fst (M.sstep md5_name (M.settle md5_name M.sETTLE_FUEL !st now) (M.OCleanCache now));
           let mc = List.sort compare (List.map (fun (nm, o) ->
             (string_of_name nm, int_of_z (List.nth !st.M.heap (int_of_nat o)).M.f_state)) !st.M.cache) in
           if List.sort compare ic <> mc then diff v (Printf.sprintf "cache@%d" k)
       | `TM (n, e, d) -> ignore (next t); tampered := string_of_name n :: !tampered;
           st := fst (M.sstep md5_name !st (M.OTamper (n, e, d))));
      if v.diffs <> [] then stop := true
    end else begin
      (* the model and the implementation have diverged: the model's state is no longer a prediction of
         anything. The implementation's own outputs are still read, and the oracles that need no model are
         still evaluated on them (never as "predicted") *)
      let k = !idx in incr idx;
      ignore k;
      (match op with
       | `TM (n, _, _) -> tampered := string_of_name n :: !tampered; ignore (next t)
       | `PR _ | `AG _ | `AA _ | `VH | `IM _ -> ignore (next t)
       | `RC (p, _, _) ->
           ignore (nb t);
           let ns = string_of_name p.M.p_name and hs = string_of_name p.M.p_hash in
           if not (List.mem hs (Hashtbl.find_all announced ns)) then Hashtbl.add announced ns hs;
           let logged_already = (match !last_snap with
             | Some sn -> List.exists (fun (ln, _, lh, _) -> ln = ns && lh = hs) sn.slog | None -> false) in
           Hashtbl.add all_prevs (ns, hs) (string_of_name p.M.p_prev);
           if not logged_already then Hashtbl.replace ann_prev (ns, hs) (string_of_name p.M.p_prev)
       | `ST | `TF | `RS | `CL | `VR ->
           (match op with `CL -> cleaned_after_div := true | `RS -> ignore (nz t) | _ -> ());
           let isn = parse_snap t in
           (* C04: never logged before the predecessor it was announced with (not judged once the cleaner has
              run after the divergence: it clears predecessors of cycles, and only the model knew which) *)
           if not !cleaned_after_div then begin
             let rec order seen = function
               | [] -> ()
               | (n, _, h, _) :: rest ->
                   (match Hashtbl.find_opt ann_prev (n, h) with
                    | Some pv when pv <> "" && pv <> n && not (Hashtbl.mem cleared n) && not (!cleaned_once && in_cycle n) ->
                        if not (List.mem pv seen) then oracle v "delivered_before_predecessor" false
                    | _ -> ());
                   order (n :: seen) rest in
             order [] isn.slog
           end;
           List.iter (fun (tn, _, m) ->
             if not (Filename.check_suffix tn ".lck") then
             let ok = List.exists (fun (n, r, h, _) -> (if r = "" then n else r) = tn && List.mem h (Hashtbl.find_all announced n) && h = m) isn.slog in
             if not ok then oracle v "delivered_content_not_validated" false) isn.sfinals;
           note_held isn;
           last_snap := Some isn
       | `RQ _ -> ignore (nz t)
       | `SQ (n, _, h) ->
           let ia = ni t in
           (* C02: a positive answer that names a version needs a validated copy of THAT version, held or logged *)
           (match !last_snap with
            | Some sn when (ia = 2 || ia = 3) && h <> [] ->
                let ns = string_of_name n and hs = string_of_name h in
                let held = List.exists (fun (fn, e, _, m) -> fn = ns && e = "wait" && m = hs) sn.sfiles in
                let logged = List.exists (fun (ln, _, lh, _) -> ln = ns && lh = hs) sn.slog in
                if not (held || logged) then oracle v "positive_status_for_another_version" false
            | _ -> ())
       | `SC -> let nc = ni t in if nc >= 0 then ignore (times nc (fun () -> parse_cmp t))
       | `CC -> let n = ni t in ignore (times n (fun () -> let nm = next t in let stt = next t in (nm, stt))))
    end) ops;
  (* C06: end of the resumption after a crash *)
  (* C06 / C01: a validated copy that was held at some point is, at the end, still held or logged and put away
     as that version - through cleaning runs and restarts (implementation-only; not judged for names that had
     several versions announced or whose staged body the history tampered with) *)
  (match !last_snap with
   | Some fin ->
       List.iter (fun (n, m) ->
         let still = List.exists (fun (fn, e, _, fm) -> fn = n && e = "wait" && fm = m) fin.sfiles in
         let logged = List.exists (fun (ln, _, lh, _) -> ln = n && lh = m) fin.slog in
         let several = List.length (Hashtbl.find_all announced n) > 1 in
         if not (still || logged || several || List.mem n !tampered) then oracle v "validated_held_file_lost" false;
         (* ... and it is not left behind for good: at the end of the history (everything settled) a copy that
            is still held is waiting for a predecessor that has NOT been delivered *)
         if still && not several && not (List.mem n !tampered) then begin
           (* (parts of one version may announce different predecessors; the one that counts is the completing
              part's: judged only when they all agree) *)
           match Hashtbl.find_opt ann_prev (n, m) with
           | Some pv when pv <> "" && pv <> n && List.for_all (fun x -> x = pv) (Hashtbl.find_all all_prevs (n, m)) ->
               if List.exists (fun (ln, _, _, _) -> ln = pv) fin.slog && not !vhold then
                 oracle v "held_file_left_behind_although_predecessor_delivered" false
           | _ -> ()
         end) !held_seen
   | None -> ());
  (match !crash_image, !last_snap with
   | Some (ann, img), Some fin ->
       List.iter (fun (n, h, _, _, rn) ->
         let ns = string_of_name n and hs = string_of_name h in
         let tgt = if rn = [] then ns else string_of_name rn in
         let delivered = List.exists (fun (fn, _, m) -> fn = tgt && m = hs) fin.sfinals in
         let lck_in_image = M.ahas (if rn = [] then n else rn) img.M.flcks in
         (* (judged against the model's prediction: only while model and implementation agree) *)
         if not delivered && v.diffs = [] then
           oracle v (if lck_in_image then "delivered_under_lock_name_after_crash" else "not_delivered_after_crash_and_resume")
             (not (List.exists (fun (fn, _, m) -> fn = tgt && m = hs) (model_snap !st).sfinals));
         let nrec = List.length (List.filter (fun (ln, _, lh, _) -> ln = ns && lh = hs) fin.slog) in
         let img_logged = List.exists (fun r -> M.name_eqb r.M.l_name n) img.M.rlog in
         let img_final = M.ahas (if rn = [] then n else rn) img.M.finals in
         let allowed = if img_logged && not img_final then 2 else 1 in
         if nrec > allowed then oracle v "redelivered_after_crash" false) ann
   | _ -> ());
  v.cls <- (if !reannounce then "F" else "D");
  v.nontrivial <- (match !last_snap with Some s -> s.sfinals <> [] || s.sfiles <> [] | None -> false)


(* ============================ suite T : send loop (C08) ====================== *)
let suite_send t v =
  let np = ni t in
  let ne = ni t in
  let evs = times ne (fun () ->
    match next t with
    | "X" -> let n = ni t in let ok = nb t in `X (n, ok)
    | "R" -> let n = ni t in let ok = nb t in `R (n, ok)
    | "C" -> let k = ni t in `C (times k (fun () -> ni t))
    | s -> raise (Malformed ("send ev " ^ s))) in
  expect t "=";
  let rd () = let k = ni t in times k (fun () -> let l = ni t in times l (fun () -> ni t)) in
  let ireq = rd () in
  let ifwd = rd () in
  (* how many requests went out with a header (EncodeHeader) that lists other parts than the payload holds *)
  let hdr_mismatch = if eol t then 0 else (expect t "H"; ni t) in
  if hdr_mismatch > 0 then oracle v "request_header_lists_other_parts_than_the_payload_holds" false;
  let mevs = List.map (function
    | `X (n, ok) -> M.ETx (nat_of_int n, ok)
    | `R (n, ok) -> M.ERec (nat_of_int n, ok)
    | `C ids -> M.EChanged (List.map z_of_int ids)) evs in
  let ps = List.init np z_of_int in
  let r = M.run_send ps mevs in
  let ints l = List.map (List.map int_of_z) l in
  if ints r.M.requests <> ireq then diff v "requests";
  if ints r.M.forwarded <> ifwd then diff v "forwarded";
  (* ---- oracles on the implementation's behaviour ---- *)
  let changed = List.concat (List.filter_map (function `C ids -> Some ids | _ -> None) evs) in
  (* reported count for the i-th request *)
  let rec reported evs = match evs with
    | `X (n, true) :: r -> `Ok n :: reported r
    | `X (n, false) :: r ->
        if n > 0 then `Fail n :: reported r
        else
          let rec skip = function
            | `R (k, true) :: r' -> (Some k, r')
            | `R (_, false) :: r' -> skip r'
            | r' -> (None, r') in
          (match skip r with (Some k, r') -> `Fail k :: reported r' | (None, r') -> `Fail 0 :: reported r')
    | _ :: r -> reported r
    | [] -> [] in
  let reps = reported evs in
  let rec firstn n l = if n <= 0 then [] else match l with [] -> [] | x :: r -> x :: firstn (n - 1) r in
  (* expected forwarded groups, from the implementation's own requests and the reported counts *)
  let expected = List.concat (List.mapi (fun i req ->
    match (try List.nth reps i with _ -> `Ok (List.length req)) with
    | `Ok _ -> [req]
    | `Fail k -> if k <= 0 then [] else if k >= List.length req then [req] else [firstn k req]) ireq) in
  if expected <> ifwd then oracle v "forwarded_differs_from_reported_head" (ints r.M.forwarded = ifwd);
  (* a part that was acknowledged (forwarded) must not be transmitted again *)
  let rec resent reqs fwds i = match reqs with
    | [] -> false
    | req :: rest ->
        let acked_before = List.concat (firstn (List.length (List.filter (fun x -> x) (List.mapi (fun j _ -> j < i &&
            (match (try List.nth reps j with _ -> `Ok 0) with `Fail k -> k > 0 | `Ok _ -> true)) ireq))) fwds) in
        List.exists (fun id -> List.mem id acked_before) req || resent rest fwds (i + 1) in
  if resent ireq ifwd 0 then oracle v "resent_acknowledged_part" false;
  (* nothing abandoned, nothing duplicated *)
  let all_fwd = List.concat ifwd in
  List.iter (fun id ->
    let c = List.length (List.filter (( = ) id) all_fwd) in
    if c > 1 then oracle v "part_forwarded_twice" false;
    if c = 0 && not (List.mem id changed) then oracle v "part_abandoned" false) (List.init np (fun i -> i));
  v.cls <- "D";
  v.nontrivial <- List.length ireq >= 2


(* ============================ suite E : end-to-end sender runs ================ *)
let suite_e2e t v =
  let _id = next t in
  let profile = next t in
  let params = Hashtbl.create 16 and facts = Hashtbl.create 16 in
  let rec rd tbl = if eol t then () else
    let tok = next t in
    if tok = "=" then rd facts else begin
      (match String.index_opt tok '=' with
       | Some i -> Hashtbl.replace tbl (String.sub tok 0 i) (String.sub tok (i + 1) (String.length tok - i - 1))
       | None -> ());
      rd tbl end in
  rd params;
  let f k = try Hashtbl.find facts k with Not_found -> "" in
  let fi k = try int_of_string (f k) with _ -> 0 in
  let p k = try Hashtbl.find params k with Not_found -> "" in
  let finished = f "finished" = "true" in
  let all_delivered = fi "delivered_ok" = fi "eligible" in
  let vanished = fi "source_read_errors" > 0 in
  (* C02 *)
  if fi "bad_removes" > 0 || fi "bad_removes_before_crash" > 0 then oracle v "deleted_without_validated_copy" false;
  if fi "source_lost" > 0 then oracle v "source_gone_receiver_lacks_it" false;
  if fi "released_without_positive_answer" > 0 then oracle v "released_without_positive_answer" false;
  if fi "confirmed_left_unrecorded" > 0 then oracle v "confirmed_left_unrecorded_at_exit" false;
  (* C19: the tag's delete-delay is applied to the files of that tag *)
  if fi "early_delete" > 0 then oracle v "deleted_before_delete_delay" false;
  (* C08 *)
  if fi "sent_before_all_acked" > 0 then oracle v "logged_sent_before_all_bytes_acknowledged" false;
  (* ... and no part is skipped: what a recovery answer counts as held is on the receiver's record *)
  if fi "recovery_overcount" > 0 then oracle v "part_counted_as_held_not_on_record" false;
  (* C17 / C01 *)
  if fi "ineligible_touched" > 0 then oracle v "ineligible_file_sent_or_deleted" false;
  if fi "young_sent" > 0 then oracle v "version_sent_before_its_minimum_age" false;
  if fi "alien_final" > 0 then oracle v "delivered_mixture_of_versions" false;
  (* C07 *)
  (* C07: the ordering / logging chain continues: a file confirmed before or after the restart has ONE
     sent-log record (profiles without validation failures: a failed file is legitimately sent and logged again) *)
  if f "restarted" = "true" && (profile = "crash" || profile = "crashgone") && fi "sent_logged_twice" > 0 then
    oracle v "sent_log_record_repeated_after_restart" false;
  if f "restarted" = "true" then begin
    if fi "resent_held_bytes" > 0 then oracle v "resent_bytes_receiver_reported_held" false;
    if not (finished && all_delivered) then oracle v "not_delivered_after_sender_restart" false
  end;
  (* C16 *)
  let stop = p "stop" in
  if stop = "now" then begin
    if not finished then oracle v "stop_now_did_not_terminate" false
    else if fi "stop_ms" > 4000 then oracle v "stop_now_not_prompt" false
  end;
  if stop = "graceful" && finished && fi "delivered_left_unpolled" > 0 && p "faults" = "0" then
    oracle v "graceful_stop_left_delivered_files_unpolled" false;
  if stop = "graceful" then begin
    if not finished then oracle v "graceful_stop_did_not_terminate" vanished
    else if not all_delivered && p "faults" = "0" && p "pollfaults" = "0" then
      (* a file whose transmission or validation failed is not retried once a stop was requested (by design) *)
      oracle v "graceful_stop_left_work_undone" false
  end;
  (* C03 (and C16 for the final graceful stop of every other run) *)
  if stop = "-" && f "restarted" <> "true" then begin
    if not all_delivered then begin
      (* a file rewritten while parts of it are in flight is outside the premise "source files
         stop changing" for that stretch; the tracker's per-name progress is then reset by
         interleaved parts of the two versions and may never complete (recorded finding) *)
      if profile = "mutate" then oracle v "not_confirmed_after_rewrite_in_flight" true
      else begin
        (* a file that disappears from the outgoing directory after its first parts went out is
           outside the premise too ("source files stop changing"): its successors in the ordering
           chain arrive, validate, and are HELD for a predecessor that will never be complete - in-order
           delivery, as designed. Exempt exactly that: every undelivered file is validated and held. *)
        let held = List.length (List.filter (fun n -> Filename.check_suffix n ".wait") (String.split_on_char ',' (f "staged_names"))) in
        if profile = "vanish" && fi "eligible" - fi "delivered_ok" = held then ()
        else oracle v "not_delivered_within_bound" false
      end end
    else if not finished then begin
      (* everything delivered and released, but the graceful stop at the end never returns: after a file
         vanished (C16-F1) or - profile mutate - was rewritten in flight (C03-F2: the tracker's entry of
         the name is reset by parts of the two versions and never completes) *)
      if profile = "mutate" then oracle v "not_confirmed_after_rewrite_in_flight" true
      else oracle v "pipeline_never_drains_after_vanished_file" vanished end
    else if fi "staged_left" > 0 && profile <> "vanish" then oracle v "staging_area_not_empty_at_the_end" false
  end;
  if vanished then v.model_fails <- true;
  v.cls <- (if profile = "mutate" then "F" else "D");
  v.nontrivial <- fi "tx_calls" >= 2


(* ============================ suite F : configuration (C19) ================== *)
let backoff_table = [| 0; 0; 20000000; 5000000; 9999999; 32500000 |]   (* x 1e7 *)
let fmt6_z (v : M.z) : M.z = (* "%f" keeps 6 decimals: round x1e7 to a multiple of 10 *)
  let i = int_of_z v in z_of_int (((i + 5) / 10) * 10)

let suite_conf t v =
  let _fmt = ni t in
  let ns = ni t in
  let srcs = times ns (fun () ->
    let threads = ni t in let minage = ni t in let compress = ni t in let pollatt = ni t in let outdir = ni t in
    let ht = ni t in let tkey = ni t in let tdgram = ni t in let tport = ni t in
    let stat = ni t in let hidden = ni t in let backoff = ni t in let incl = ni t in let ignr = ni t in
    let nt = ni t in
    let tags = times nt (fun () -> let a = ni t in let b = ni t in let c = ni t in let d = ni t in let e = ni t in (a, b, c, d, e)) in
    (threads, minage, compress, pollatt, outdir, ht, tkey, tdgram, tport, stat, hidden, backoff, incl, ignr, tags)) in
  expect t "=";
  if peek t = "ERR" then (diff v "parse-error"; v.cls <- "D") else begin
  let rd_eff () = times ns (fun () ->
    let pl = times 8 (fun () -> ni t) in
    let stat = ni t in let hidden = ni t in let backoff = ni t in let incl = ni t in
    let nt = ni t in
    let tags = times nt (fun () -> let a = ni t in let b = ni t in let c = ni t in let d = ni t in let e = ni t in ([a; b; c; d], e)) in
    (pl, stat, hidden, backoff, (if incl = 9 then 0 else incl), tags)) in
  let ieff = rd_eff () in
  expect t "|";
  let ieff2 = if peek t = "ERR" then (diff v "reencode-error"; []) else rd_eff () in
  let dec c = if c >= 1 then c - 1 else 0 in
  let docs = List.map (fun (threads, minage, compress, pollatt, outdir, ht, tkey, tdgram, tport, stat, hidden, backoff, incl, ignr, _) ->
    let tk, td, tp = if ht = 1 then (tkey, (if tdgram = 1 then 1 else 0), dec tport) else (0, 0, 0) in
    let inc = if incl > 0 then incl else if ignr > 0 then 9 else 0 in
    { M.d_plain = List.map z_of_int [dec threads; dec minage; dec compress; dec pollatt; outdir; tk; td; tp; inc];
      d_stat = z_of_int stat; d_hidden = z_of_int hidden;
      d_backoff = (if backoff = 0 then None else Some (z_of_int backoff_table.(backoff))) }) srcs in
  let show_src (c : M.src_conf) =
    let pl = List.map int_of_z c.M.c_plain in
    let p8 = List.filteri (fun i _ -> i < 8) pl in
    let inc = List.nth pl 8 in
    (p8, (if c.M.c_stat then 1 else 0), (if c.M.c_hidden then 1 else 0), int_of_z c.M.c_backoff, (if inc = 9 then 0 else inc)) in
  let meff = List.map show_src (M.effective docs) in
  let meff2 = List.map show_src (M.reencode fmt6_z docs) in
  (* tags: a source without tags inherits the (propagated) list of its predecessor *)
  let mtags = ref [] in
  let prev_tags = ref [] in
  List.iter (fun (_, _, _, _, _, _, _, _, _, _, _, _, _, _, tags) ->
    let eff = if tags = [] then !prev_tags
      else List.map (fun (tc : M.tag_conf) -> (List.map int_of_z tc.M.tc_plain, (if tc.M.tc_delete then 1 else 0)))
             (M.propagate_tags (List.map (fun (a, b, c, d, e) ->
                M.parse_tag { M.td_plain = List.map z_of_int [dec a; b; c; dec d]; td_delete = z_of_int e }) tags)) in
    mtags := !mtags @ [eff]; prev_tags := eff) srcs;
  let strip (pl, st, hd, bo, inc, _) = (pl, st, hd, bo, inc) in
  List.iteri (fun i (ie, me) -> if strip ie <> me then diff v ("source@" ^ string_of_int i)) (List.combine ieff meff);
  List.iteri (fun i ((_, _, _, _, _, it), mt) -> if it <> mt then diff v ("tags@" ^ string_of_int i)) (List.combine ieff !mtags);
  if ieff2 <> [] then begin
    List.iteri (fun i (ie, me) -> if strip ie <> me then diff v ("reencoded@" ^ string_of_int i)) (List.combine ieff2 meff2);
    (* oracle: re-encoding does not change the effective configuration *)
    if List.map strip ieff2 <> List.map strip ieff || List.map (fun (_, _, _, _, _, x) -> x) ieff2 <> List.map (fun (_, _, _, _, _, x) -> x) ieff then
      oracle v "reencoding_changes_configuration" (meff2 <> meff);
    if meff2 <> meff then v.model_fails <- true
  end;
  (* oracles: omitted options inherit, explicit ones are kept *)
  let finding = ref false in
  List.iteri (fun i ((threads, minage, compress, pollatt, outdir, ht, tkey, tdgram, tport, stat, hidden, backoff, incl, ignr, _), (ipl, ist, ihd, ibo, iinc, _)) ->
    let prev = if i = 0 then None else Some (List.nth ieff (i - 1)) in
    let mpl, mst, mhd, mbo, minc = List.nth meff i in
    let codes = [threads; minage; compress; pollatt; (if outdir > 0 then outdir + 1 else 0);
                 (if ht = 1 && tkey > 0 then tkey + 1 else 0); (if ht = 1 then (match tdgram with 1 -> 2 | 2 -> 1 | _ -> 0) else 0);
                 (if ht = 1 then tport else 0)] in
    List.iteri (fun k code ->
      let got = List.nth ipl k and mgot = List.nth mpl k in
      let inherited = (match prev with Some (ppl, _, _, _, _, _) -> List.nth ppl k | None -> 0) in
      if code >= 2 && got <> code - 1 then oracle v "explicit_value_overridden" (mgot = got);
      if code = 0 && got <> inherited then oracle v "omitted_option_not_inherited" (mgot = got);
      if code = 1 && got <> 0 then begin finding := true; oracle v "explicit_zero_or_false_overridden_no_marker" (mgot = got) end) codes;
    let pst, phd, pbo, pinc = (match prev with Some (_, a, b, c, d, _) -> (a, b, c, d) | None -> (0, 0, 0, 0)) in
    (match stat with
     | 1 -> if ist <> 1 then oracle v "explicit_value_overridden" (mst = ist)
     | 2 -> if ist <> 0 then oracle v "explicit_false_overridden" (mst = ist)
     | _ -> if ist <> pst then oracle v "omitted_option_not_inherited" (mst = ist));
    (match hidden with
     | 1 -> if ihd <> 1 then oracle v "explicit_value_overridden" (mhd = ihd)
     | 2 -> if ihd <> 0 then begin finding := true; oracle v "explicit_false_include_hidden_overridden" (mhd = ihd) end
     | _ -> if ihd <> phd then oracle v "omitted_option_not_inherited" (mhd = ihd));
    (if backoff > 0 then (if ibo <> backoff_table.(backoff) then oracle v "explicit_value_overridden" (mbo = ibo))
     else if ibo <> pbo then oracle v "omitted_option_not_inherited" (mbo = ibo));
    (if incl > 0 then (if iinc <> incl then oracle v "explicit_value_overridden" (minc = iinc))
     else if iinc <> pinc then begin
       if ignr > 0 then begin finding := true; oracle v "omitted_include_not_inherited_when_ignore_given" (minc = iinc) end
       else oracle v "omitted_option_not_inherited" (minc = iinc) end))
    (List.combine srcs ieff);
  (* tags: explicit delete=false kept, omitted inherits the default tag's *)
  List.iteri (fun i ((_, _, _, _, _, _, _, _, _, _, _, _, _, _, tags), (_, _, _, _, _, itags)) ->
    if tags <> [] && List.length itags = List.length tags then begin
      let (_, ddel) = List.hd itags in
      List.iteri (fun j ((prio, order, chunk, ldelay, del), (ipl, idel)) ->
        if j > 0 then begin
          (match del with
           | 1 -> if idel <> 1 then oracle v "explicit_value_overridden" false
           | 2 -> if idel <> 0 then oracle v "explicit_false_overridden" false
           | _ -> if idel <> ddel then oracle v "omitted_option_not_inherited" false);
          let (dpl, _) = List.hd itags in
          List.iteri (fun k code ->
            let got = List.nth ipl k and dv = List.nth dpl k in
            let own = (match k with 0 | 3 -> code - 1 | _ -> code) in
            if (match k with 0 | 3 -> code >= 2 | _ -> code >= 1) then (if got <> own then oracle v "explicit_value_overridden" false)
            else if (match k with 0 | 3 -> code = 1 | _ -> false) then (if got <> 0 then begin finding := true; oracle v "explicit_zero_or_false_overridden_no_marker" true end)
            else if got <> dv then oracle v "omitted_option_not_inherited" false) [prio; order; chunk; ldelay]
        end) (List.combine tags itags)
    end; ignore i) (List.combine srcs ieff);
  v.cls <- (if !finding || v.model_fails then "F" else "D");
  v.nontrivial <- ns >= 2
  end


(* ============================ suite H : HTTP routes (C14, C15) =============== *)
let split_on (seps : char list) (s : string) : string list =
  let buf = Buffer.create 16 and out = ref [] in
  String.iter (fun c -> if List.mem c seps then (out := Buffer.contents buf :: !out; Buffer.clear buf) else Buffer.add_char buf c) s;
  List.rev (Buffer.contents buf :: !out)
let segz (s : string) = digits_of_string s

(* strings.Split(name, sep) + filepath.Join: non-empty elements joined by "/" (library glue) *)
let go_split_join (name : string) (sep : string) : string =
  if sep = "" then name else begin
    let rec split s acc =
      match (try Some (Str.search_forward (Str.regexp_string sep) s 0) with Not_found -> None) with
      | None -> List.rev (s :: acc)
      | Some i -> split (String.sub s (i + String.length sep) (String.length s - i - String.length sep)) (String.sub s 0 i :: acc) in
    let els = List.filter (fun e -> e <> "") (split name []) in
    let joined = String.concat "/" els in
    if joined = "" then "" else
    (* Clean *)
    let abs = joined.[0] = '/' in
    let segs = List.map segz (split_on ['/'] joined) in
    let cl = if abs then M.clean_abs [] segs else M.clean_rel [] segs in
    let body = String.concat "/" (List.map string_of_name cl) in
    if abs then "/" ^ body else if body = "" then "." else body
  end

let local_name (s : string) : bool =
  let abs = String.length s > 0 && s.[0] = '/' in
  M.is_local abs (s <> "") (List.map segz (split_on ['/'] s))

let suite_http t v =
  let route = next t in
  let srcsv = ni t in let keysv = ni t in
  let source = str_of_hex (next t) in let key = str_of_hex (next t) in
  let name = str_of_hex (next t) in let prev = str_of_hex (next t) in let renamed = str_of_hex (next t) in
  let sep = str_of_hex (next t) in
  let exists = ni t in
  expect t "=";
  let status = ni t in let outside = nb t in let changed = nb t in
  let foreign = if eol t then false else nb t in
  let disclosed = if eol t then false else nb t in
  let told_changed = if eol t then false else nb t in
  let sources = if srcsv = 0 then [] else if srcsv = 1 then [segz "good"; segz "oth/er"] else if srcsv = 3 then [segz "final"; segz "good"] else [segz "site.alpha"; segz "b1/c2"; segz "good"] in
  let keys = if keysv = 0 then [] else [segz "k1"; segz "k2"] in
  let cs = source <> "" && String.for_all (fun c -> (c >= 'a' && c <= 'z') || (c >= '0' && c <= '9') || c = '.' || c = '-' || c = '/') source in
  let ssegs = List.map segz (split_on ['/'; '\\'] source) in
  let decision = int_of_z (M.handle_validate sources keys (segz source) (segz key) ssegs cs true) in
  let static = (route = "sget" || route = "sdel" || route = "sgetn" || route = "sdeln") in
  let no_serve_dir = (route = "sgetn" || route = "sdeln") in
  let refused = status >= 300 in
  (* ---- oracles ---- *)
  if outside then oracle v "touched_file_outside_configured_directories" false;
  if foreign then oracle v "touched_file_of_another_source" false;
  if disclosed then oracle v "disclosed_file_of_another_source" false;
  if status <> -1 then begin
    if refused && changed then oracle v "refused_request_had_effect" false;
    (* the answers an authorised sender gets about its files (one failed, one held) are the same after
       the request as before it: no request in the grammar names those files *)
    if told_changed then oracle v (if refused then "refused_request_changed_what_authorised_sender_is_told"
                                   else "request_changed_what_sender_is_told_about_other_files") false;
    if decision <> 0 && not refused then oracle v "unauthorised_request_processed" false
  end;
  (* ---- comparison with the model's decision ---- *)
  if status <> -1 then begin
    if decision <> 0 then begin
      (* the mux may redirect an unclean static path before the handler runs *)
      if status <> decision && not (static && status >= 301 && status <= 308) then diff v "refusal-code"
    end else begin
      match route with
      | "data" | "recovery" | "data2" | "data3" ->
          let n' = go_split_join name sep and p' = go_split_join prev sep in
          let ok = local_name n' && (p' = "" || local_name p') && (renamed = "" || local_name renamed) in
          if ok then (if refused && status <> 206 && status <> 500 then diff v "local-name-refused")
          else if status <> 400 then diff v "escaping-name-not-refused"
      | "validate" ->
          let n' = go_split_join name sep in
          if local_name n' then (if status <> 200 then diff v "local-name-refused")
          else if status <> 400 then diff v "escaping-name-not-refused"
      | "partials" -> if status <> 200 then diff v "partials-status"
      | _ ->
          (* static: only plain, safe names under a safe source can succeed *)
          let safe_seg s = s <> "" && String.for_all (fun c -> (c >= 'a' && c <= 'z') || (c >= 'A' && c <= 'Z') || (c >= '0' && c <= '9') || c = '.' || c = '_' || c = '-') s in
          (* repeated, leading and trailing slashes are normalised away by the server *)
          let segs = List.filter (fun s -> s <> "") (split_on ['/'] name) in
          let plain = List.for_all (fun s -> safe_seg s && s <> "." && s <> "..") segs in
          if status >= 200 && status < 300 && no_serve_dir then begin
            (* no serve directory configured: whatever was served lies outside the source's directories *)
            oracle v "served_without_a_serve_directory" false;
            diff v "static-served-unsafe-path"
          end else
          if status >= 200 && status < 300 && not (plain && safe_seg source && (exists > 0 || segs = [])) then
            diff v "static-served-unsafe-path"
    end
  end;
  v.cls <- "D";
  v.nontrivial <- decision <> 0 || String.contains name '.' || String.contains source '.'

(* ============================ suite N : scanner histories (C17) ================ *)
let suite_scan t v =
  let minage = ni t in
  let hidden = nb t in
  let hasinc = nb t in
  let nops = ni t in
  let ops = times nops (fun () -> String.split_on_char ',' (next t)) in
  expect t "=";
  let nscans = ni t in
  let iscans = times nscans (fun () ->
    let n = ni t in
    times n (fun () -> let name = str_of_hex (next t) in let size = ni t in let mt = ni t in let hok = ni t in (name, size, mt, hok))) in
  (* attributes of a name under this configuration (the regular expressions of the
     driver: ignore \.skip$ + standard \.lck$ and .disabled; include (^|/)inc) *)
  let starts p s = String.length s >= String.length p && String.sub s 0 (String.length p) = p in
  let ends p s = let lp = String.length p and ls = String.length s in ls >= lp && String.sub s (ls - lp) lp = p in
  let attrs name =
    let segs = String.split_on_char '/' name in
    let rec split_last = function [x] -> ([], x) | x :: r -> let (d, b) = split_last r in (x :: d, b) | [] -> ([], "") in
    let (dirs, base) = split_last segs in
    let ign s = ends ".skip" s || ends ".lck" s in
    (* a directory is skipped when it is hidden (and hidden files are off) or matches an ignore pattern;
       prefixes of the relative path are what the patterns see *)
    let rec prefixes acc = function [] -> [] | d :: r -> let p = if acc = "" then d else acc ^ "/" ^ d in p :: prefixes p r in
    let skipped = List.exists (fun p -> let b = List.hd (List.rev (String.split_on_char '/' p)) in
                                 ((not hidden) && starts "." b) || ign p || b = ".disabled") (prefixes "" dirs) in
    let hid = starts "." base in
    let ignored = ign name || base = ".disabled" in
    let included = List.exists (fun sg -> starts "inc" sg) segs in
    (hid, skipped, ignored, included) in
  (* replay the history: world = name -> (size, mtime_rel_ms) *)
  let world = Hashtbl.create 16 in
  let disabled = ref false in
  let clean_next = ref false in
  let cache = ref [] in
  let last = Hashtbl.create 16 in          (* oracle state: the version returned last, from the IMPLEMENTATION's outputs *)
  let iscans = ref iscans in
  let k = ref 0 in
  let name_z s = List.init (String.length s) (fun i -> z_of_int (Char.code s.[i])) in
  List.iter (fun op ->
    match op with
    | ["W"; n; sz; age] | ["P"; n; sz; age] -> Hashtbl.replace world (str_of_hex n) (int_of_string sz, - (int_of_string age))
    | ["A"; n; ex; age] ->
        let n = str_of_hex n in
        (match Hashtbl.find_opt world n with
         | Some (sz, _) -> Hashtbl.replace world n (sz + int_of_string ex, - (int_of_string age))
         | None -> ())
    | ["T"; n; age] ->
        let n = str_of_hex n in
        (match Hashtbl.find_opt world n with
         | Some (sz, _) -> Hashtbl.replace world n (sz, - (int_of_string age))
         | None -> ())
    | ["R"; n] -> Hashtbl.remove world (str_of_hex n)
    | ["L"; n; sz] -> Hashtbl.replace world (str_of_hex n) (int_of_string sz, -3600000)
    | ["D"; x] -> disabled := (x = "31")
    | ["M"; _] -> ()     (* confirmation: nothing a scan depends on *)
    | ["G"] -> clean_next := true
    | ["S"] ->
        incr k;
        let names = List.sort compare (Hashtbl.fold (fun n _ acc -> n :: acc) world []) in
        let dfiles = List.map (fun n ->
          let (sz, mt) = Hashtbl.find world n in
          let (hid, skipped, ignored, included) = attrs n in
          (* a symbolic link's own age is that of its creation: the driver only uses links with minage 0 *)
          let mt_age = if n = "lnk" then 0 else mt in
          ignore mt_age;
          { M.df_name = name_z n; df_size = z_of_int sz; df_mtime = z_of_int mt;
            df_hidden = hid; df_skipped = skipped; df_ignored = ignored; df_included = included }) names in
        let cfg = { M.sc_disabled = !disabled; sc_hidden = hidden; sc_hasinc = hasinc; sc_minage = z_of_int minage } in
        (* the clean-up runs at the head of a scan once an interval has passed - never in a broker's first scan *)
        let clean = !clean_next && !k > 1 in
        clean_next := false;
        (* a file created anew under a name the clean-up forgot may be sent again, same size and time or not *)
        if clean then List.iter (fun n -> if not (Hashtbl.mem world n) then Hashtbl.remove last n)
                        (Hashtbl.fold (fun n _ acc -> n :: acc) last []);
        let (ret, c') = M.scan_once_c clean cfg (z_of_int 0) dfiles !cache in
        cache := c';
        let mret = List.sort compare (List.map (fun d ->
          (String.init (List.length d.M.df_name) (fun i -> Char.chr (int_of_z (List.nth d.M.df_name i))), int_of_z d.M.df_size, int_of_z d.M.df_mtime)) ret) in
        let iret = (match !iscans with x :: r -> iscans := r; x | [] -> raise (Malformed "scan outputs")) in
        let iret3 = List.sort compare (List.map (fun (n, s, m, _) -> (n, s, m)) iret) in
        if iret3 <> mret then diff v (Printf.sprintf "scan-%d-returned-set" !k);
        (* oracles on what the implementation returned *)
        List.iter (fun (n, s, m, hok) ->
          let (hid, skipped, ignored, included) = attrs n in
          let elig = (not !disabled) && (not skipped) && (hidden || not hid) && (not ignored) && ((not hasinc) || included)
                     && s > 0 && (n = "lnk" || - m >= minage) in
          if not elig then oracle v "ineligible_file_queued" (List.mem (n, s, m) mret);
          if Hashtbl.find_opt last n = Some (s, m) then oracle v "unchanged_file_queued_again" (List.mem (n, s, m) mret);
          if hok <> 1 then oracle v "queued_with_hash_of_other_content" false;
          (match Hashtbl.find_opt world n with
           | Some (s', m') when s' = s && m' = m -> ()
           | _ -> oracle v "queued_version_not_on_disk" false)) iret;
        List.iter (fun n ->
          let (sz, mt) = Hashtbl.find world n in
          let (hid, skipped, ignored, included) = attrs n in
          let elig = (not !disabled) && (not skipped) && (hidden || not hid) && (not ignored) && ((not hasinc) || included)
                     && sz > 0 && (n = "lnk" || - mt >= minage) in
          if elig && Hashtbl.find_opt last n <> Some (sz, mt) && not (List.mem (n, sz, mt) iret3) then
            oracle v "new_or_changed_eligible_file_not_queued" (not (List.mem (n, sz, mt) mret))) names;
        List.iter (fun (n, s, m, _) -> Hashtbl.replace last n (s, m)) iret
    | _ -> raise (Malformed "scan op")) ops;
  v.cls <- "D";
  v.nontrivial <- nscans >= 2

(* ============================ suite W : payload wire format (C13) ============= *)
let vw_byte seed i = (seed * 131 + i * 7 + i / 251) land 0xff

let suite_wire t v =
  let sep = ni t in
  let np = ni t in
  let parts = times np (fun () ->
    let name = next t in let ren = next t in let prev = next t in let hash = next t in
    let sec = next t in let nsec = next t in let size = next t in let beg = next t in let en = next t in
    let data = next t in
    let seed = int_of_string (String.sub data 1 (String.length data - 1)) in
    (name, ren, prev, hash, sec, nsec, size, beg, en, seed)) in
  let rb1 = ni t in let rb2 = ni t in let rb3 = ni t in let cut = ni t in let delta = ni t in
  ignore rb1;
  expect t "=";
  let ihdr = next t in let ibodylen = ni t in let ibodymd5 = next t in
  let status = next t in
  let ndec = ni t in
  let idec = times ndec (fun () ->
    let name = next t in let ren = next t in let prev = next t in let hash = next t in
    let sec = next t in let nsec = next t in let size = next t in let beg = next t in let en = next t in
    let gotlen = ni t in let gotmd5 = next t in let complete = ni t in
    (name, ren, prev, hash, sec, nsec, size, beg, en, gotlen, gotmd5, complete)) in
  (* ---- model ---- *)
  let ds = List.map (fun (name, ren, prev, hash, sec, nsec, size, beg, en, _) ->
    { M.d_name = bytes_of_hex name; d_ren = bytes_of_hex ren; d_prev = bytes_of_hex prev; d_hash = bytes_of_hex hash;
      d_sec = z_of_string sec; d_nsec = z_of_string nsec; d_size = z_of_string size; d_beg = z_of_string beg; d_end = z_of_string en }) parts in
  let body_strs = List.map (fun (_, _, _, _, _, _, _, beg, en, seed) ->
    let b = int_of_string beg and e = int_of_string en in
    String.init (e - b) (fun i -> Char.chr (vw_byte seed (b + i)))) parts in
  let zbytes s = List.init (String.length s) (fun i -> z_of_int (Char.code s.[i])) in
  let str_of_z l = let b = Buffer.create 64 in List.iter (fun z -> Buffer.add_char b (Char.chr ((int_of_z z) land 0xff))) l; Buffer.contents b in
  let mhdr = M.enc_header ds in
  let mhdr_s = str_of_z mhdr in
  let body_s = String.concat "" body_strs in
  if hex_of_bytes mhdr <> ihdr then diff v "header-bytes";
  if String.length body_s <> ibodylen || Digest.to_hex (Digest.string body_s) <> ibodymd5 then diff v "encoder-body";
  let wire_s = mhdr_s ^ body_s in
  let total = String.length wire_s in
  let wire_s = if cut >= 0 && cut < total then String.sub wire_s 0 cut else wire_s in
  let n = String.length mhdr_s + delta in
  let g = let k = nat_of_int rb2 in (fun _ -> k) in
  let mres = M.decode (z_of_int n) (z_of_int sep) (zbytes wire_s) (nat_of_int rb3) g in
  let md5 s = Digest.to_hex (Digest.string s) in
  let mdec = match mres with
    | None -> None
    | Some l -> Some (List.map (fun ((d, got), complete) ->
        (hex_of_bytes d.M.d_name, hex_of_bytes d.M.d_ren, hex_of_bytes d.M.d_prev, hex_of_bytes d.M.d_hash,
         string_of_z d.M.d_sec, string_of_z d.M.d_nsec, string_of_z d.M.d_size, string_of_z d.M.d_beg, string_of_z d.M.d_end,
         List.length got, md5 (str_of_z got), if complete then 1 else 0)) l) in
  (match status, mdec with
   | "hdrerr", None -> ()
   | "ok", Some l -> if l <> idec then diff v "decoded-parts"
   | "hang", _ -> diff v "decoder-hangs"
   | "hdrerr", Some _ -> diff v "header-refused-model-accepts"
   | "ok", None -> diff v "header-accepted-model-refuses"
   | _ -> diff v "status");
  (* ---- oracles on what the implementation did (independent of the model's decoder) ---- *)
  let model_same = (match status, mdec with "hdrerr", None -> true | "ok", Some l -> l = idec | _ -> false) in
  if status = "hang" then oracle v "decoder_never_answers" false;
  let hdrlen = String.length mhdr_s in
  let tr s = (* the separator convention: generated segments contain neither the separator nor '/' *)
    if sep = 92 then hex_of_bytes (List.map (fun z -> if int_of_z z = 92 then z_of_int 47 else z) (bytes_of_hex s)) else s in
  let complete_all = status = "ok" && List.length idec = np && List.for_all (fun (_, _, _, _, _, _, _, _, _, _, _, c) -> c = 1) idec in
  if cut < 0 && delta = 0 then begin
    (* the undisturbed round trip: exactly what was encoded *)
    let expected = List.map2 (fun (name, ren, prev, hash, sec, nsec, size, beg, en, _) b ->
      (tr name, ren, tr prev, hash, sec, nsec, size, beg, en, String.length b, md5 b, 1)) parts body_strs in
    if not (status = "ok" && idec = expected) then oracle v "decoded_differs_from_encoded" model_same
  end else begin
    if (cut >= 0 && cut < total) && complete_all then oracle v "truncated_payload_accepted_as_complete" model_same;
    if delta <> 0 && complete_all then oracle v "wrong_header_length_accepted" model_same;
    if cut >= 0 && cut < hdrlen && delta = 0 && status = "ok" then oracle v "truncated_header_accepted" model_same
  end;
  (* whatever arrives: a part only ever gets bytes of its own range *)
  if status = "ok" && delta = 0 then
    List.iteri (fun i (_, _, _, _, _, _, _, _, _, gotlen, gotmd5, _) ->
      match List.nth_opt body_strs i with
      | Some b -> if gotlen > String.length b || md5 (String.sub b 0 gotlen) <> gotmd5 then oracle v "part_got_bytes_of_another_part" model_same
      | None -> oracle v "more_parts_than_encoded" model_same) idec;
  v.cls <- "D";
  v.nontrivial <- np >= 2 || cut >= 0 || delta <> 0

(* ============================ suite WH : the wire format over HTTP (C13) ======= *)
let suite_wire_http t v =
  let level = ni t in
  let sep = ni t in
  let np = ni t in
  let parts = times np (fun () ->
    let name = next t in let ren = next t in let prev = next t in let hash = next t in
    let sec = next t in let nsec = next t in let size = next t in let beg = next t in let en = next t in
    let data = next t in
    let seed = int_of_string (String.sub data 1 (String.length data - 1)) in
    (name, ren, prev, hash, sec, nsec, size, beg, en, seed)) in
  let cut = ni t in
  expect t "=";
  let status = ni t in
  let nrec = ni t in
  let irec = times nrec (fun () ->
    let name = next t in let ren = next t in let prev = next t in let hash = next t in
    let sec = next t in let nsec = next t in let size = next t in let beg = next t in let en = next t in
    let gotlen = ni t in let gotmd5 = next t in let complete = ni t in
    (name, ren, prev, hash, sec, nsec, size, beg, en, gotlen, gotmd5, complete)) in
  let ds = List.map (fun (name, ren, prev, hash, sec, nsec, size, beg, en, _) ->
    { M.d_name = bytes_of_hex name; d_ren = bytes_of_hex ren; d_prev = bytes_of_hex prev; d_hash = bytes_of_hex hash;
      d_sec = z_of_string sec; d_nsec = z_of_string nsec; d_size = z_of_string size; d_beg = z_of_string beg; d_end = z_of_string en }) parts in
  let body_strs = List.map (fun (_, _, _, _, _, _, _, beg, en, seed) ->
    let b = int_of_string beg and e = int_of_string en in
    String.init (e - b) (fun i -> Char.chr (vw_byte seed (b + i)))) parts in
  let zbytes s = List.init (String.length s) (fun i -> z_of_int (Char.code s.[i])) in
  let str_of_z l = let b = Buffer.create 64 in List.iter (fun z -> Buffer.add_char b (Char.chr ((int_of_z z) land 0xff))) l; Buffer.contents b in
  let md5 s = Digest.to_hex (Digest.string s) in
  let mhdr_s = str_of_z (M.enc_header ds) in
  let wire_s = mhdr_s ^ String.concat "" body_strs in
  let total = String.length wire_s in
  let exact = (level = 0 || cut < 0) in      (* the cut position is in the uncompressed stream *)
  let entry_of ((d, got), complete) =
    (hex_of_bytes d.M.d_name, hex_of_bytes d.M.d_ren, hex_of_bytes d.M.d_prev, hex_of_bytes d.M.d_hash,
     string_of_z d.M.d_sec, string_of_z d.M.d_nsec, string_of_z d.M.d_size, string_of_z d.M.d_beg, string_of_z d.M.d_end,
     List.length got, md5 (str_of_z got), if complete then 1 else 0) in
  let names_local l = List.for_all (fun ((d, _), _) ->
    let n = str_of_z d.M.d_name and p = str_of_z d.M.d_prev and r = str_of_z d.M.d_ren in
    local_name n && (p = "" || local_name p) && (r = "" || local_name r)) l in
  let model_ok = ref true in
  if exact then begin
    let w = if cut >= 0 && cut < total then String.sub wire_s 0 cut else wire_s in
    let g = let k = nat_of_int 4096 in (fun _ -> k) in
    (match M.decode (z_of_int (String.length mhdr_s)) (z_of_int sep) (zbytes w) (nat_of_int 32768) g with
     | None -> if not (status = 500 && irec = []) then (diff v "http-header-refusal"; model_ok := false)
     | Some l ->
         (* names are judged on the header alone, before any part is read *)
         let hdr_only = (match M.decode_header (z_of_int (String.length mhdr_s)) (z_of_int sep) (zbytes w) with
                         | Some (hd, _) -> List.map (fun d -> ((d, []), true)) hd | None -> []) in
         if not (names_local hdr_only) then (if not (status = 400 && irec = []) then (diff v "http-nonlocal-name"; model_ok := false))
         else begin
           let ml = List.map entry_of l in
           let all_complete = List.length l = np && List.for_all (fun (_, c) -> c) l in
           let want = if all_complete then 200 else 206 in
           if status <> want then (diff v "http-status"; model_ok := false);
           if ml <> irec then (diff v "http-received-parts"; model_ok := false)
         end)
  end;
  (* ---- oracles ---- *)
  let tr s = if sep = 92 then hex_of_bytes (zbytes (go_split_join (str_of_hex s) "\\")) else hex_of_bytes (zbytes (go_split_join (str_of_hex s) "/")) in
  if cut < 0 then begin
    let expected = List.map2 (fun (name, ren, prev, hash, sec, nsec, size, beg, en, _) b ->
      (tr name, ren, tr prev, hash, sec, nsec, size, beg, en, String.length b, md5 b, 1)) parts body_strs in
    if not (status = 200 && irec = expected) then oracle v "received_differs_from_sent" (exact && !model_ok)
  end else if cut < total || level <> 0 then begin
    if status = 200 && (level = 0 || List.length irec = np) && cut < total && level = 0 then oracle v "truncated_request_accepted" !model_ok
  end;
  if status = -1 then oracle v "request_never_answered" false;
  List.iteri (fun i (_, _, _, _, _, _, _, _, _, gotlen, gotmd5, _) ->
    match List.nth_opt body_strs i with
    | Some b -> if gotlen > String.length b || md5 (String.sub b 0 gotlen) <> gotmd5 then oracle v "part_got_bytes_of_another_part" (exact && !model_ok)
    | None -> oracle v "more_parts_than_sent" false) irec;
  (* a compressed request that was cut must not be answered 200 unless everything did arrive *)
  if level <> 0 && cut >= 0 && status = 200 then begin
    let all = List.length irec = np && List.for_all (fun (_, _, _, _, _, _, _, _, _, _, _, c) -> c = 1) irec in
    if not all then oracle v "truncated_request_accepted" false
  end;
  v.cls <- "D";
  v.nontrivial <- np >= 2 || cut >= 0 || level <> 0

(* ============================ suite SR : receiver under concurrent connections ==== *)
let suite_race t v =
  let kind = next t in
  let _p1 = next t in let p2 = next t in let _p3 = next t in
  expect t "=";
  let facts = Hashtbl.create 16 in
  while not (eol t) do
    let tok = next t in
    (match String.index_opt tok '=' with
     | Some i -> Hashtbl.replace facts (String.sub tok 0 i) (String.sub tok (i + 1) (String.length tok - i - 1))
     | None -> ())
  done;
  let f k = try Hashtbl.find facts k with Not_found -> "" in
  let fi k = try int_of_string (f k) with _ -> 0 in
  (match kind with
   | "swap" ->
       let final = f "final" and logged = f "logged" in
       if final <> "-" then begin
         if final <> logged || not (final = f "h1" || final = f "h2") then oracle v "delivered_content_not_validated" false;
         if p2 = "1" && final = f "wire2" then oracle v "delivered_content_not_validated" false
       end
   | "ready" ->
       (* received = 0: the recovered file is still waiting for / under validation *)
       if fi "began" = 1 && (fi "full_at_ready" = 1 || fi "state_at_ready" = 0) then oracle v "ready_before_recovery_finished" false
   | "over" ->
       (* a damaged copy wrote over the staged file while the good request was streaming: never delivered *)
       if fi "bad_content" > 0 then oracle v "delivered_content_not_validated" false
   | "hold" ->
       (* a held file whose predecessor is in the receive log (days back) comes out after a bounded number of re-examinations *)
       if fi "delivered" = 0 then oracle v "held_file_never_released_although_predecessor_logged" false
   | "late" ->
       (* whatever is put away or held under the name after a stalled duplicate came back is the announced content *)
       (* recorded finding C01-F2: the scenario is built to exhibit it ("predicted") *)
       if fi "bad_content" > 0 then oracle v "stalled_duplicate_wrote_into_settled_file" true
   | "storm" ->
       if fi "bad_content" > 0 || fi "bad_log_hash" > 0 then oracle v "delivered_content_not_validated" false;
       if fi "logged_twice" > 0 then oracle v "logged_twice" false;
       if fi "before_predecessor" > 0 then oracle v "delivered_before_predecessor" false;
       if fi "delivered" < fi "files" || fi "held_left" > 0 then oracle v "complete_file_not_delivered" false
   | s -> raise (Malformed ("race kind " ^ s)));
  v.cls <- "D";
  v.nontrivial <- true

(* ============================ suite G : which tag applies to a file (C19) ====== *)
(* ---- suite RD : a delivered version retransmitted after a restart, through client, server, decoder,
   stage and log, in several time zones (C05; implementation-only oracles) ---- *)
let suite_redeliver t v =
  let zone = ni t in let _tod = ni t in let _days = ni t in let variant = ni t in
  expect t "=";
  let first = ni t in let second = ni t in let nrec = ni t in let nfinal = ni t in let _staged = ni t in
  if variant = 2 then begin
    (* the delivered file again in front of a new file: the new file arrives with its own bytes *)
    if first <> 200 || nrec < 1 then oracle v "not_delivered_in_the_first_place" false;
    if second <> 200 || nfinal <> 1 then oracle v "part_behind_a_retransmitted_file_got_other_bytes" false;
    if nrec > 1 then oracle v "delivered_version_logged_again" false
  end else begin
  if first <> 200 || nfinal <> 1 || nrec < 1 then oracle v "not_delivered_in_the_first_place" false;
  if nrec > 1 then oracle v "delivered_version_logged_again_after_restart" false;
  if variant = 0 && second <> 1 then oracle v "delivered_version_not_recognised_after_restart" false;
  if variant = 1 && second <> 200 then diff v "retransmission-status"
  end;
  v.cls <- "D";
  v.nontrivial <- zone <> 0 || variant = 2

(* ---- suite GN : what each source's store ignores after all sources of a sender were initialised (C19, C17) ----
   line: GN nsrc, per source: lists (-1, or ninc ids nign ids) and tags (-1, or ntags pairs id nonhttp); then "="
   and per source: ninc ids nign ids *)
let suite_ignores t v =
  let ns = ni t in
  let srcs = times ns (fun () ->
    let k = ni t in
    let lists = if k < 0 then None else begin
      let inc = times k (fun () -> nz t) in
      let m = ni t in let ign = times m (fun () -> nz t) in Some (inc, ign) end in
    let nt = ni t in
    let tags = if nt < 0 then None else Some (times nt (fun () -> let id = nz t in let nh = nb t in (id, nh))) in
    { M.is_lists = lists; is_tags = tags }) in
  expect t "=";
  let rows = times ns (fun () ->
    let k = ni t in let inc = times k (fun () -> ni t) in
    let m = ni t in let ign = times m (fun () -> ni t) in (inc, ign)) in
  let mrows = List.map (fun (a, b) -> (List.map int_of_z a, List.map int_of_z b)) (M.ignore_table srcs) in
  if mrows <> rows then diff v "store-ignore-lists";
  (* a source never ignores by the pattern of a tag it does not have, and always by its own non-http tags *)
  let eff_tags = let cur = ref [] in List.map (fun s -> (match s.M.is_tags with Some t -> cur := t | None -> ()); !cur) srcs in
  List.iteri (fun i (_, ign) ->
    let mine = List.map (fun (id, _) -> int_of_z id) (List.nth eff_tags i) in
    let mine_nh = List.filter_map (fun (id, nh) -> if nh then Some (int_of_z id) else None) (List.nth eff_tags i) in
    List.iter (fun x -> if x >= 200 && not (List.mem x mine) then oracle v "source_ignores_by_another_sources_tag" false) ign;
    List.iter (fun x -> if not (List.mem x ign) then oracle v "non_http_tag_of_the_source_not_ignored" false) mine_nh) rows;
  v.cls <- "D";
  v.nontrivial <- List.exists (fun s -> s.M.is_lists = None) srcs

(* ---- suite RP : the sender asks what the receiver holds (C07; implementation-only oracles) ---- *)
let suite_partials t v =
  let mode = ni t in let nstaged = ni t in
  expect t "=";
  let err = ni t in let nlisted = ni t in let bytes = ni t in
  if mode <> 0 && err = 0 then oracle v "refused_partials_request_read_as_nothing_held" false;
  if mode = 0 then begin
    if err <> 0 then diff v "partials-request-failed";
    let want = List.fold_left (fun a i -> a + 100 * (i + 1)) 0 (List.init nstaged (fun i -> i)) in
    if nlisted <> nstaged || bytes <> want then oracle v "partials_listing_differs_from_what_is_staged" false
  end;
  v.cls <- "D";
  v.nontrivial <- mode <> 0 || nstaged > 0

(* ---- suite MV : fileutil.Move / Copy put a file away byte for byte (C01; implementation-only oracles) ---- *)
let suite_move t v =
  let size = ni t in let pattern = ni t in let mode = ni t in
  expect t "=";
  let err = ni t in let dstsize = ni t in let same = ni t in let gone = ni t in
  if err <> 0 then diff v "move-failed"
  else begin
    if same <> 1 || dstsize <> size then oracle v "file_put_away_differs_from_the_validated_bytes" false;
    if mode <> 2 && gone <> 1 then oracle v "moved_file_left_behind" false
  end;
  v.cls <- "D";
  v.nontrivial <- size > 8192 && pattern > 0

(* ---- suite FI : finish(): one poll answer, the cache entry and the source file (C02) ---- *)
let suite_finish t v =
  let code = ni t in let ci = ni t in let pi = ni t in
  let was_done = nb t in let del = nb t in let disk = ni t in
  expect t "=";
  let d = nb t in let ex = nb t in let rt = nb t in
  let h i = if i = 0 then [] else [z_of_int (96 + i)] in
  let o = M.finish_step (z_of_int code) (h ci) (h pi) was_done del (z_of_int disk) in
  let m_exists = disk <> 2 && not o.M.fo_removed in
  if o.M.fo_done <> d then diff v "finish-done";
  if m_exists <> ex then diff v "finish-removed";
  if o.M.fo_retry <> rt then diff v "finish-retry";
  let positive = (code = 2 || code = 3) in
  let same_version = (pi = 0 || ci = pi) in
  if d && not was_done && not (positive && same_version) then oracle v "entry_confirmed_by_answer_about_another_version" false;
  if disk <> 2 && not ex && not (positive && same_version && del && disk = 0) then
    oracle v "source_removed_without_confirmation_of_that_version" false;
  v.cls <- "D";
  v.nontrivial <- positive && ci <> pi

(* ---- suite GI : chunk size per source and tag after inheritance (C19) ---- *)
let suite_inherit t v =
  let ns = ni t in
  let srcs = times ns (fun () ->
    let bin = nz t in let nt = ni t in
    let tags = if nt < 0 then None else Some (times nt (fun () -> nz t)) in
    { M.cs_bin = bin; cs_tags = tags }) in
  expect t "=";
  let rows = times ns (fun () -> let n = ni t in times n (fun () -> ni t)) in
  let big = 64 lsl 20 in
  let mrows = List.map (fun r -> List.map (fun c -> min big (int_of_z c)) r) (M.chunk_table srcs) in
  if mrows <> rows then diff v "queue-chunk-size";
  (* a source that gives a bin-size chunks a tag with a chunk-size written for a tag, or with its own bin-size *)
  let written = List.concat (List.map (fun s -> match s.M.cs_tags with Some l -> List.map int_of_z l | None -> []) srcs) in
  List.iteri (fun i row ->
    let bin = int_of_z (List.nth srcs i).M.cs_bin in
    if bin <> 0 then
      List.iter (fun x -> if x <> min big bin && not (x <> 0 && List.mem x written) then
                   oracle v "chunked_with_another_sources_bin_size" false) row) rows;
  v.cls <- "D";
  v.nontrivial <- List.exists (fun s -> s.M.cs_tags = None) srcs

let suite_tags t v =
  let nt = ni t in
  let haspat = Array.of_list (times nt (fun () -> nb t)) in
  let nn = ni t in
  let rows = times nn (fun () ->
    let name = next t in let group = next t in
    let bits = Array.of_list (times nt (fun () -> let a = nb t in let b = nb t in let c = nb t in let d = nb t in (a, b, c, d))) in
    (name, group, bits)) in
  expect t "=";
  let got = times nn (fun () -> ni t) in
  let idx_of_nat n = let rec go k = function M.O -> k | M.S m -> go (k + 1) m in go 0 n in
  List.iter2 (fun (name, group, bits) g ->
    (* the model's strings: 0 :: name = "the name", 1 :: group = "its group" - the verdict tables are per string *)
    let sname = [z_of_int 0] and sgroup = [z_of_int 1] in
    let is_name s = (s = sname) in
    let has_pattern i = let k = idx_of_nat i in k < nt && haspat.(k) in
    let matches i s = let k = idx_of_nat i in k < nt && (let (a, b, _, _) = bits.(k) in if is_name s then a else b) in
    let name_is i s = let k = idx_of_nat i in k < nt && (let (_, _, c, d) = bits.(k) in if is_name s then c else d) in
    let group_of s = if is_name s && group <> "-" then Some sgroup else None in
    let m = (match M.file_tag (nat_of_int nt) has_pattern matches name_is group_of sname with
             | Some i -> idx_of_nat i | None -> -1) in
    if m <> g then begin
      diff v "tag-of-file";
      (* independent reading of the property: the first tag, in configuration order, whose pattern matches
         the group (the name when there is no usable group) *)
      let expected =
        let rec go k = if k >= nt then -1 else
          let (a, b, c, d) = bits.(k) in
          let hit = if group <> "-" then (b || d) else (a || c) in
          if haspat.(k) && hit then k else go (k + 1) in go 0 in
      if g <> expected then oracle v "file_gets_settings_of_wrong_tag" false
    end;
    ignore name) rows got;
  v.cls <- "D";
  v.nontrivial <- nt >= 2

(* ============================ suite P : Prune (C20) ============================ *)
let suite_prune t v =
  let nn = ni t in
  let segs_of hexs = if hexs = "-" then [] else
    List.map (fun sg -> List.init (String.length sg) (fun i -> z_of_int (Char.code sg.[i]))) (String.split_on_char '/' (str_of_hex hexs)) in
  let nodes = times nn (fun () -> let p = next t in let d = nb t in let o = nb t in (p, d, o)) in
  expect t "=";
  let nl = ni t in
  let ileft = List.sort compare (times nl (fun () -> next t)) in
  let mnodes = List.map (fun (p, d, o) -> { M.pn_path = segs_of p; pn_dir = d; pn_old = o }) nodes in
  let kept = M.prune mnodes in
  let mleft = List.sort compare (List.filter_map (fun (p, d, o) ->
    if List.exists (fun k -> k.M.pn_path = segs_of p) kept then Some p else None) nodes) in
  if mleft <> ileft then diff v "prune-left";
  (* oracles on what the implementation removed *)
  List.iter (fun (p, d, o) ->
    if not (List.mem p ileft) then begin
      if not d then oracle v "prune_removed_file" false;
      if d && not o then oracle v "prune_removed_young_directory" false
    end) nodes;
  (* nothing that stays lies inside a directory that went *)
  List.iter (fun p ->
    if p <> "-" then begin
      let s = str_of_hex p in
      let parent = (match String.rindex_opt s '/' with Some i -> String.sub s 0 i | None -> "") in
      let parent_hex = if parent = "" then "-" else hex_of_bytes (List.init (String.length parent) (fun i -> z_of_int (Char.code parent.[i]))) in
      if not (List.mem parent_hex ileft) then oracle v "prune_removed_non_empty_directory" false
    end) ileft;
  v.cls <- "D";
  v.nontrivial <- nn >= 3

(* ============================ suite CA : queue cache (C17 / C07 / C02) ========= *)
let suite_cache t v =
  let nops = ni t in
  let ops = times nops (fun () ->
    match next t with
    | "A" -> let n = bytes_of_hex (next t) in let sz = nz t in let tm = nz t in
             let meta = bytes_of_hex (next t) in let h = bytes_of_hex (next t) in M.CAdd (n, sz, tm, meta, h)
    | "D" -> M.CDone (bytes_of_hex (next t))
    | "R" -> M.CReset (bytes_of_hex (next t))
    | "X" -> M.CRemove (bytes_of_hex (next t))
    | "P" -> M.CPersist
    | "S" -> M.CRestart
    | s -> raise (Malformed ("cache op " ^ s))) in
  expect t "=";
  let c = ref M.empty_cache in
  let restarts = ref 0 and dones = ref 0 in
  List.iteri (fun k op ->
    (match op with M.CRestart -> incr restarts | M.CDone _ -> incr dones | _ -> ());
    let before = !c in
    c := M.cstep !c op;
    let n = ni t in
    let impl = List.sort compare (times n (fun () ->
      let nm = next t in let sz = next t in let tm = next t in let meta = next t in let h = next t in let d = next t in
      (nm, sz, tm, meta, h, d))) in
    let model = List.sort compare (List.map (fun (nm, e) ->
      (hex_of_bytes nm, string_of_z e.M.ce_size, string_of_z e.M.ce_time, hex_of_bytes e.M.ce_meta, hex_of_bytes e.M.ce_hash,
       if e.M.ce_done then "1" else "0")) !c.M.c_mem) in
    if impl <> model then diff v (Printf.sprintf "cache@%d" k);
    (* oracles on the implementation's own observations *)
    (match op with
     | M.CAdd (nm, sz, tm, meta, h) ->
         let key = hex_of_bytes nm in
         (match List.find_opt (fun (a, _, _, _, _, _) -> a = key) impl with
          | Some (_, isz, itm, imeta, ih, idone) ->
              if isz <> string_of_z sz || itm <> string_of_z tm || ih <> hex_of_bytes h then oracle v "cache_entry_is_not_the_version_added" false;
              if imeta <> hex_of_bytes meta then oracle v "cache_entry_lost_store_data" false;
              (* a confirmation does not carry over to another version *)
              (match M.cget nm before.M.c_mem with
               | Some e when idone = "1" && M.c_other_version e sz tm h -> oracle v "confirmation_carried_over_to_another_version" false
               | _ -> ())
          | None -> oracle v "cache_entry_is_not_the_version_added" false)
     | M.CRestart ->
         (* what the restarted sender finds is what was persisted last *)
         let disk = List.sort compare (List.map (fun (nm, e) ->
           (hex_of_bytes nm, string_of_z e.M.ce_size, string_of_z e.M.ce_time, hex_of_bytes e.M.ce_meta, hex_of_bytes e.M.ce_hash,
            if e.M.ce_done then "1" else "0")) before.M.c_disk) in
         if impl <> disk then oracle v "restart_finds_other_than_persisted" false
     | _ -> ())) ops;
  v.cls <- "D";
  v.nontrivial <- !restarts > 0 || !dones > 0

(* ============================ suite TK : tracker (C08) ======================== *)
let suite_track t v =
  let npl = ni t in
  let payloads = times npl (fun () ->
    let np = ni t in
    times np (fun () ->
      let n = bytes_of_hex (next t) in let h = bytes_of_hex (next t) in
      let send = nz t in let _size = nz t in let _off = nz t in let len = nz t in
      { M.tp_name = n; tp_hash = h; tp_send = send; tp_len = len })) in
  expect t "=";
  let nl = ni t in
  let ilogged = times nl (fun () -> let n = next t in let h = next t in (n, h)) in
  let nh = ni t in
  let ihanded = times nh (fun () -> let n = next t in let h = next t in let snt = ni t in let sz = ni t in (n, h, snt, sz)) in
  let (_, evs) = M.track_run payloads in
  let mlogged = List.filter_map (function M.TLogged (n, h) -> Some (hex_of_bytes n, hex_of_bytes h) | _ -> None) evs in
  let mhanded = List.sort compare (List.filter_map (function M.THanded (n, h) -> Some (hex_of_bytes n, hex_of_bytes h) | _ -> None) evs) in
  if ilogged <> mlogged then diff v "tracker-logged";
  if List.sort compare (List.map (fun (n, h, _, _) -> (n, h)) ihanded) <> mhanded then diff v "tracker-handed";
  (* oracles on the implementation's own output: acknowledged bytes of that version reach the send size *)
  let all = List.concat payloads in
  let acked n h = List.fold_left (fun a p -> if hex_of_bytes p.M.tp_name = n && hex_of_bytes p.M.tp_hash = h then a + int_of_z p.M.tp_len else a) 0 all in
  let send_of n h = List.fold_left (fun a p -> if hex_of_bytes p.M.tp_name = n && hex_of_bytes p.M.tp_hash = h then Some (int_of_z p.M.tp_send) else a) None all in
  List.iter (fun (n, h) ->
    match send_of n h with
    | Some s when acked n h >= s -> ()
    | _ -> oracle v "logged_sent_before_all_bytes_acknowledged" false) ilogged;
  List.iter (fun (n, h, snt, sz) ->
    (match send_of n h with
     | Some s when acked n h >= s && snt >= sz -> ()
     | _ -> oracle v "polled_before_all_bytes_acknowledged" false)) ihanded;
  (* every file whose parts were all acknowledged comes out *)
  List.iter (fun p ->
    let n = hex_of_bytes p.M.tp_name and h = hex_of_bytes p.M.tp_hash in
    ignore (n, h)) all;
  v.cls <- "D";
  v.nontrivial <- List.length all >= 3

(* ============================ suite HR : requests during start-up recovery (C15) === *)
let suite_recov t v =
  let _src = next t in
  expect t "=";
  let first = next t in
  if first = "skipped" then (v.cls <- "D"; v.nontrivial <- false)
  else begin
    let d1 = int_of_string first in let d2 = ni t in let d3 = ni t in
    let changed = ni t in let after = ni t in let wrong = ni t in
    (* an authorised request of a source whose staging area is still recovering is answered 503 and has no effect *)
    if d1 <> 503 || d2 <> 503 || d3 <> 503 || changed <> 0 then oracle v "served_while_recovering" false;
    if after <> 200 then oracle v "not_served_after_recovery" false;
    if wrong <> 403 then oracle v "unauthorised_not_refused_after_recovery" false;
    v.cls <- "D"; v.nontrivial <- true
  end

(* ============================ dispatch ====================================== *)
let run_line line =
  let t = mk line in
  let v = fresh () in
  (try
     (match next t with
      | "R" -> suite_ranges t v
      | "K" -> suite_chunk t v
      | "Q" -> suite_queue t v
      | "L" -> suite_log t v
      | "S" -> suite_stage t v
      | "T" -> suite_send t v
      | "E" -> suite_e2e t v
      | "F" -> suite_conf t v
      | "H" -> suite_http t v
      | "N" -> suite_scan t v
      | "W" -> suite_wire t v
      | "SR" -> suite_race t v
      | "G" -> suite_tags t v
      | "GI" -> suite_inherit t v
      | "GN" -> suite_ignores t v
      | "FI" -> suite_finish t v
      | "RD" -> suite_redeliver t v
      | "RP" -> suite_partials t v
      | "MV" -> suite_move t v
      | "P" -> suite_prune t v
      | "CA" -> suite_cache t v
      | "TK" -> suite_track t v
      | "HR" -> suite_recov t v
      | "WH" -> suite_wire_http t v
      | "LC" -> suite_log_conc t v
      | s -> raise (Malformed ("unknown suite " ^ s)))
   with
   | Malformed s -> diff v ("malformed:" ^ s)
   | Failure s -> diff v ("malformed:" ^ s)
   | Invalid_argument s -> diff v ("malformed:" ^ s));
  v

let () =
  let ic = open_in Sys.argv.(1) in
  let k = ref 0 in
  (try
     while true do
       let line = input_line ic in
       incr k;
       if String.length line > 0 && line.[0] <> '#' then begin
         let v = run_line line in
         Printf.printf "%d\t%s\t%s\t%d\t%s\t%d\n" !k
           (if v.diffs = [] then "AGREE" else "DIFF:" ^ String.concat "," (List.rev v.diffs))
           (if v.oracles = [] then "-" else String.concat "," (List.rev v.oracles))
           (if v.nontrivial then 1 else 0) v.cls (if v.model_fails then 1 else 0)
       end
     done
   with End_of_file -> ());
  close_in ic
